"""Engine B-sched: a z3 transition-relation encoding of the in-memory transport, GENERATED FROM THE AST of
semantiva/execution/transport/in_memory.py on every run (DESIGN 4.14).

The module's `publish`, the defaultdict factory and `InMemorySubscription.__iter__` are compiled into a control
flow graph whose nodes are the *line events* CPython reports for them (entry and exit of a `with` block are two
events on the `with` line, a `for` header is revisited on every iteration, the factory lambda has its own event
between the failed lookup and the store...).  Statements that only touch thread-local names are merged into the
neighbouring step (the same syntactic independence rule as vt/linesched.local_lines, so that a model step IS a
step of the line scheduler).  The heap is a small explicit machine:

    _queues : channel -> (present, deque id, lock id, insertion order)      channel universe of the scenario
    deque d : buf[d][0..M), head[d], tail[d]                                  d in 1..ND (allocation counter)
    lock  l : owner[l] in {0 = free, thread+1}                                l in 0..NL (instance locks first)
    thread  : pc, error flag, call index, registers (tag, a, b), for-loop snapshots, delivery log

The schedule `sched[k]` (thread chosen at step k) is a free z3 integer for every k: the solver ranges over ALL
interleavings at line granularity within the step bound K -- no preemption bound.  Queries:

    unwinding   exists schedule: some thread not finished at step K and no deadlock seen      must be unsat
    capacity    exists schedule: an allocation / buffer / log bound of the heap model exceeded   must be unsat
    property    exists schedule: thread error, deadlock, a message delivered+remaining != once,
                per-(thread, channel) order violated in a consumer, delivery not matching its pattern

Anything outside the supported statement subset raises Unsupported: the obligation is then INCONCLUSIVE (never a
pass, never an alarm).  The encoding is validated on every run against the real transport (conformance: fixed
schedules executed by vt/linesched on real threads must give the same (thread, line) trace and outcome), and a
counterexample is replayed on the real code by feeding the model's schedule to the line scheduler.
"""
from __future__ import annotations

import ast
import itertools
import time
from typing import Any, Dict, List, Optional, Tuple

import z3

# value tags
NONE, BOOL, MSG, DEQUE, LOCK, PAIR, CHAN, INT, OPAQUE = 0, 1, 2, 3, 4, 5, 6, 7, 8
END, DONE = -1, -2
ALL_TAGS = frozenset(range(9))


class Unsupported(Exception):
    pass


# All quantities of the machine are small (program counters, tags, object ids, counters): 8-bit signed bit-vectors
# bit-blast to SAT, which decides these control-heavy queries much faster than linear integer arithmetic.
BITS = 8


def _I(n):
    return z3.BitVecVal(int(n), BITS)


def _Var(name):
    return z3.BitVec(name, BITS)


def _b2i(c):
    return z3.If(c, _I(1), _I(0))


class V:
    """A symbolic Python value: (tag, a, b) as z3 Ints."""

    __slots__ = ("tag", "a", "b", "tags")

    def __init__(self, tag, a=0, b=0, tags=None):
        # tags: static over-approximation of the possible tags (None = unknown); keeps irrelevant cases (e.g. the
        # deque-length case of truthiness) out of the formulas, which is what lets independent steps be recognised
        self.tags = tags if tags is not None else (frozenset([tag]) if isinstance(tag, int) else None)
        self.tag = tag if z3.is_expr(tag) else _I(tag)
        self.a = a if z3.is_expr(a) else _I(a)
        self.b = b if z3.is_expr(b) else _I(b)


def vite(c, x: V, y: V) -> V:
    tags = (x.tags | y.tags) if (x.tags is not None and y.tags is not None) else None
    return V(z3.If(c, x.tag, y.tag), z3.If(c, x.a, y.a), z3.If(c, x.b, y.b), tags)


def _names(node: ast.AST) -> set:
    out = set()
    for sub in ast.walk(node):
        if isinstance(sub, ast.Name):
            out.add(sub.id)
        elif isinstance(sub, ast.Attribute):
            out.add(sub.attr)
    return out


# ------------------------------------------------------------------------------------------------------------
# module facts read from the AST
# ------------------------------------------------------------------------------------------------------------
class ModuleFacts:
    def __init__(self, path: str):
        from vt.linesched import local_lines

        self.path = path
        src = open(path).read()
        self.tree = ast.parse(src)
        self.local_lines = local_lines(path)
        self.transport = self._cls("InMemorySemantivaTransport")
        self.subscription = self._cls("InMemorySubscription")
        self.publish = self._fn(self.transport, "publish")
        self.iter = self._fn(self.subscription, "__iter__")
        self.queues_kind = None  # "defaultdict" | "dict"
        self.factory: Optional[ast.Lambda] = None
        self.instance_locks: Dict[str, int] = {}
        self.transport_attrs: Dict[str, Any] = {}
        self._read_transport_init()
        self._read_subscription_init()
        self._read_subscribe()

    def _cls(self, name):
        for n in self.tree.body:
            if isinstance(n, ast.ClassDef) and n.name == name:
                return n
        raise Unsupported("class %s not found" % name)

    def _fn(self, cls, name):
        for n in cls.body:
            if isinstance(n, ast.FunctionDef) and n.name == name:
                return n
        raise Unsupported("method %s.%s not found" % (cls.name, name))

    @staticmethod
    def _is_lock_ctor(e) -> bool:
        return isinstance(e, ast.Call) and not e.args and not e.keywords and (
            (isinstance(e.func, ast.Attribute) and e.func.attr == "Lock") or (isinstance(e.func, ast.Name) and e.func.id == "Lock"))

    def _read_transport_init(self):
        init = self._fn(self.transport, "__init__")
        for st in init.body:
            if isinstance(st, ast.Expr) and isinstance(st.value, ast.Constant):
                continue
            if isinstance(st, ast.AnnAssign):
                tgt, val = st.target, st.value
            elif isinstance(st, ast.Assign) and len(st.targets) == 1:
                tgt, val = st.targets[0], st.value
            else:
                raise Unsupported("transport __init__: statement %s" % ast.dump(st)[:80])
            if not (isinstance(tgt, ast.Attribute) and isinstance(tgt.value, ast.Name) and tgt.value.id == "self"):
                raise Unsupported("transport __init__: target")
            name = tgt.attr
            if name == "_queues":
                if isinstance(val, ast.Call) and isinstance(val.func, ast.Name) and val.func.id == "defaultdict" and len(val.args) == 1 and isinstance(val.args[0], ast.Lambda) and not val.args[0].args.args:
                    self.queues_kind = "defaultdict"
                    self.factory = val.args[0]
                elif (isinstance(val, ast.Dict) and not val.keys) or (isinstance(val, ast.Call) and isinstance(val.func, ast.Name) and val.func.id == "dict" and not val.args and not val.keywords):
                    self.queues_kind = "dict"
                else:
                    raise Unsupported("_queues initialised with %s" % ast.dump(val)[:80])
            elif self._is_lock_ctor(val):
                self.instance_locks[name] = len(self.instance_locks)
            elif isinstance(val, ast.Constant) and isinstance(val.value, (bool, type(None))):
                self.transport_attrs[name] = val.value
            else:
                raise Unsupported("transport attribute %s = %s" % (name, ast.dump(val)[:60]))
        if self.queues_kind is None:
            raise Unsupported("_queues not initialised in __init__")

    def _read_subscription_init(self):
        init = self._fn(self.subscription, "__init__")
        params = [a.arg for a in init.args.args]
        if params[:3] != ["self", "queues", "pattern"] or len(params) != 3:
            raise Unsupported("subscription __init__ signature %r" % params)
        seen = {}
        for st in init.body:
            if isinstance(st, ast.Expr) and isinstance(st.value, ast.Constant):
                continue
            if isinstance(st, ast.Assign) and len(st.targets) == 1 and isinstance(st.targets[0], ast.Attribute):
                seen[st.targets[0].attr] = st.value
            else:
                raise Unsupported("subscription __init__ statement")
        ok = (set(seen) == {"_queues", "_pattern", "_closed"} and isinstance(seen["_queues"], ast.Name) and seen["_queues"].id == "queues"
              and isinstance(seen["_pattern"], ast.Name) and seen["_pattern"].id == "pattern" and isinstance(seen["_closed"], ast.Constant) and seen["_closed"].value is False)
        if not ok:
            raise Unsupported("subscription state other than (_queues, _pattern, _closed=False)")

    def _read_subscribe(self):
        sub = self._fn(self.transport, "subscribe")
        found = False
        for n in ast.walk(sub):
            if isinstance(n, ast.Call) and isinstance(n.func, ast.Name) and n.func.id == "InMemorySubscription":
                a = n.args
                if len(a) == 2 and isinstance(a[0], ast.Attribute) and a[0].attr == "_queues" and isinstance(a[1], ast.Name) and a[1].id == "channel" and not n.keywords:
                    found = True
        if not found:
            raise Unsupported("subscribe() does not build InMemorySubscription(self._queues, channel)")


# ------------------------------------------------------------------------------------------------------------
# CFG of line events
# ------------------------------------------------------------------------------------------------------------
class Node:
    def __init__(self, nid, kind, line, stmt=None, local=False, **kw):
        self.id = nid
        self.kind = kind
        self.line = line
        self.stmt = stmt
        self.local = local
        self.kw = kw

    def __repr__(self):
        return "N%d<%s@%d%s>" % (self.id, self.kind, self.line, " local" if self.local else "")


class Program:
    """CFG of one function."""

    def __init__(self, facts: ModuleFacts, fn: ast.FunctionDef, role: str):
        self.facts = facts
        self.fn = fn
        self.role = role  # "pub" | "sub"
        self.nodes: List[Node] = []
        self.regs: set = set()
        self.for_slots: List[int] = []
        body = [s for s in fn.body if not (isinstance(s, ast.Expr) and isinstance(s.value, ast.Constant))]
        self.entry = self._block(body, END, None, None, [])
        if role == "sub":
            self.entry = self._subscribe_prefix(self.entry)

    # -- helpers
    def _new(self, kind, line, stmt=None, local=False, **kw) -> Node:
        n = Node(len(self.nodes), kind, line, stmt, local, **kw)
        self.nodes.append(n)
        return n

    def _is_local(self, stmt, line_lo, line_hi) -> bool:
        return all(ln in self.facts.local_lines for ln in range(line_lo, line_hi + 1))

    def _block(self, stmts, nxt, brk, cont, withs) -> int:
        """compile statements back to front; returns the entry node id (or nxt if empty)."""
        entry = nxt
        for st in reversed(stmts):
            entry = self._stmt(st, entry, brk, cont, withs)
        return entry

    def _stmt(self, st, nxt, brk, cont, withs) -> int:
        ln = st.lineno
        end = getattr(st, "end_lineno", ln)
        if isinstance(st, (ast.Assign, ast.AnnAssign, ast.AugAssign, ast.Delete, ast.Pass)) or (isinstance(st, ast.Expr) and not isinstance(st.value, (ast.Yield, ast.YieldFrom, ast.Await))):
            for sub in ast.walk(st):
                if isinstance(sub, (ast.Yield, ast.YieldFrom, ast.Await, ast.NamedExpr, ast.ListComp, ast.DictComp, ast.SetComp, ast.GeneratorExp)):
                    raise Unsupported("%s inside a statement at line %d" % (type(sub).__name__, ln))
            self._collect_regs(st)
            n = self._new("simple", ln, st, self._is_local(st, ln, end), succ=nxt)
            # a defaultdict lookup that misses calls the factory: its own line event, then store + rest of the statement
            if self.facts.queues_kind == "defaultdict" and self._has_queues_load(st):
                f = self._new("factory", self.facts.factory.body.lineno, st, False, succ=nxt)
                n.kw["factory"] = f.id
                n.local = False
            return n.id
        if isinstance(st, ast.Expr) and isinstance(st.value, ast.Yield):
            if self.role != "sub":
                raise Unsupported("yield outside the subscription iterator")
            if st.value.value is None:
                raise Unsupported("bare yield")
            return self._new("yield", ln, st, False, succ=nxt).id
        if isinstance(st, ast.Return):
            if st.value is not None and not self._pure_local_expr(st.value):
                raise Unsupported("return of a non-local expression at line %d" % ln)
            tgt = self._chain_exits(withs, 0, END)
            return self._new("jump", ln, st, self._is_local(st, ln, end), succ=tgt).id
        if isinstance(st, ast.Break):
            if brk is None:
                raise Unsupported("break outside loop")
            tgt = self._chain_exits(withs, brk[1], brk[0])
            return self._new("jump", ln, st, True, succ=tgt).id
        if isinstance(st, ast.Continue):
            if cont is None:
                raise Unsupported("continue outside loop")
            tgt = self._chain_exits(withs, cont[1], cont[0])
            return self._new("jump", ln, st, True, succ=tgt).id
        if isinstance(st, ast.If):
            self._collect_regs(st.test)
            then = self._block(st.body, nxt, brk, cont, withs)
            els = self._block(st.orelse, nxt, brk, cont, withs) if st.orelse else nxt
            tl = getattr(st.test, "end_lineno", ln)
            return self._new("branch", ln, st.test, self._is_local(st, ln, tl), then=then, els=els).id
        if isinstance(st, ast.While):
            if st.orelse:
                raise Unsupported("while-else")
            self._collect_regs(st.test)
            head = self._new("branch", ln, st.test, False)
            body = self._block(st.body, head.id, (nxt, len(withs)), (head.id, len(withs)), withs)
            head.kw.update(then=body, els=nxt)
            return head.id
        if isinstance(st, ast.For):
            if st.orelse:
                raise Unsupported("for-else")
            slot = len(self.for_slots)
            self.for_slots.append(slot)
            self._collect_regs(st.target)
            nx = self._new("for_next", ln, st, False, slot=slot, els=nxt)
            body = self._block(st.body, nx.id, (nxt, len(withs)), (nx.id, len(withs)), withs)
            nx.kw["then"] = body
            init = self._new("for_init", ln, st, False, slot=slot, then=body, els=nxt)
            return init.id
        if isinstance(st, ast.With):
            if len(st.items) != 1 or st.items[0].optional_vars is not None:
                raise Unsupported("with statement other than `with <lock>:` at line %d" % ln)
            self._collect_regs(st.items[0].context_expr)
            ent = self._new("with_enter", ln, st, False)
            ex = self._new("with_exit", ln, st, False, wid=ent.id, succ=nxt)
            body = self._block(st.body, ex.id, brk, cont, withs + [ent])
            ent.kw["succ"] = body
            return ent.id
        raise Unsupported("statement %s at line %d" % (type(st).__name__, ln))

    def _subscribe_prefix(self, iter_entry: int) -> int:
        """The consumer thread first runs subscribe() and the subscription's __init__ (thread-local construction,
        but line events of the module, hence scheduler steps): one no-op node per statement, in execution order."""
        facts = self.facts
        sub = facts._fn(facts.transport, "subscribe")
        init = facts._fn(facts.subscription, "__init__")
        lines: List[Tuple[int, int]] = []
        body = [s for s in sub.body if not (isinstance(s, ast.Expr) and isinstance(s.value, ast.Constant))]
        for st in body:
            if isinstance(st, ast.Assign) and isinstance(st.value, ast.Call) and isinstance(st.value.func, ast.Name) and st.value.func.id == "InMemorySubscription":
                lines.append((st.lineno, getattr(st, "end_lineno", st.lineno)))
                for ist in init.body:
                    if isinstance(ist, ast.Expr) and isinstance(ist.value, ast.Constant):
                        continue
                    lines.append((ist.lineno, getattr(ist, "end_lineno", ist.lineno)))
            elif isinstance(st, ast.If) and isinstance(st.test, ast.Name) and st.test.id == "callback":
                lines.append((st.lineno, st.lineno))  # callback is None in every scenario: the body is skipped
            elif isinstance(st, ast.Return) and isinstance(st.value, ast.Name):
                lines.append((st.lineno, st.lineno))
            else:
                raise Unsupported("subscribe(): statement %s at line %d" % (type(st).__name__, st.lineno))
        nxt = iter_entry
        for lo, hi in reversed(lines):
            n = self._new("jump", lo, None, self._is_local(None, lo, hi), succ=nxt)
            nxt = n.id
        return nxt

    def _chain_exits(self, withs, upto: int, target: int) -> int:
        t = target
        for w in withs[upto:]:  # outermost first in `withs`; exits must run innermost first -> build chain from outermost
            n = self._new("with_exit", w.line, w.stmt, False, wid=w.id, succ=t)
            t = n.id
        return t

    def _pure_local_expr(self, e) -> bool:
        from vt.linesched import LOCAL_SAFE

        return _names(e) <= LOCAL_SAFE

    def _has_queues_load(self, st) -> bool:
        for sub in ast.walk(st):
            if isinstance(sub, ast.Subscript) and isinstance(sub.ctx, ast.Load) and _is_queues(sub.value):
                return True
        return False

    def _collect_regs(self, node):
        for sub in ast.walk(node):
            if isinstance(sub, ast.Name) and sub.id not in _NOT_REGS:
                self.regs.add(sub.id)


_NOT_REGS = frozenset("self fnmatch Message list deque threading Lock Future len defaultdict dict Optional Dict Any".split())


def _mentions(e, ids: set) -> bool:
    seen = set()
    stack = [e]
    while stack:
        x = stack.pop()
        i = x.get_id()
        if i in seen:
            continue
        seen.add(i)
        if i in ids:
            return True
        stack.extend(x.children())
    return False


def _is_queues(e) -> bool:
    return isinstance(e, ast.Attribute) and e.attr == "_queues" and isinstance(e.value, ast.Name) and e.value.id == "self"


# ------------------------------------------------------------------------------------------------------------
# symbolic state and evaluator
# ------------------------------------------------------------------------------------------------------------
class Bounds:
    def __init__(self, nchan, nd, nl, m, logn):
        self.nchan, self.nd, self.nl, self.m, self.logn = nchan, nd, nl, m, logn


class Frame:
    """Execution of one macro step of thread t: an overlay over the step-start state, a path guard, flags."""

    def __init__(self, enc: "Encoding", base: Dict[str, Any], t: int):
        self.enc = enc
        self.base = base
        self.ov: Dict[str, Any] = {}
        self.t = t
        self.dirty = False  # a shared write happened in the current statement
        self.miss = None  # guard under which a defaultdict lookup missed in the current statement

    def get(self, name):
        if name in self.ov:
            return self.ov[name]
        if name not in self.base:
            raise Unsupported("state variable %s does not exist for this thread" % name)
        return self.base[name]

    def set(self, name, val, guard, raw=False):
        if self.miss is not None and not raw:
            guard = z3.And(guard, z3.Not(self.miss))  # everything after a failed defaultdict lookup in this statement is abandoned
        old = self.get(name)
        self.ov[name] = z3.simplify(z3.If(guard, val, old)) if not z3.is_true(guard) else val

    # registers
    def reg(self, name) -> V:
        p = "r%d_%s" % (self.t, name)
        role = self.enc.threads[self.t][0]
        tags = self.enc.regtags.get((role, name)) if self.enc.regtags is not None else None
        return V(self.get(p + "_t"), self.get(p + "_a"), self.get(p + "_b"), tags)

    def setreg(self, name, v: V, guard):
        p = "r%d_%s" % (self.t, name)
        if p + "_t" not in self.base:
            raise Unsupported("assignment to unknown local %r" % name)
        role = self.enc.threads[self.t][0]
        acc = self.enc.regtags_acc.setdefault((role, name), set([NONE]))
        acc.update(v.tags if v.tags is not None else ALL_TAGS)
        self.set(p + "_t", v.tag, guard)
        self.set(p + "_a", v.a, guard)
        self.set(p + "_b", v.b, guard)

    def error(self, cond, guard):
        """An exception escapes the thread under guard & cond. Returns the guard for normal continuation."""
        g = z3.And(guard, cond)
        self.set("err%d" % self.t, _I(1), g)
        return z3.And(guard, z3.Not(cond))

    def overflow(self, cond, guard):
        self.set("ovf", _I(1), z3.And(guard, cond))


class Encoding:
    def __init__(self, facts: ModuleFacts, threads: List[Tuple], channels: List[str], preexisting: List[str], bounds: Bounds, premsgs: Optional[Dict[str, List[int]]] = None, init_attrs: Optional[Dict[str, Any]] = None):
        from fnmatch import fnmatch

        self.facts = facts
        self.threads = threads  # ("pub", [(chan idx, msg id), ...]) | ("sub", pattern)
        self.channels = channels
        self.pre = preexisting
        self.B = bounds
        self.pub = Program(facts, facts.publish, "pub")
        self.sub = Program(facts, facts.iter, "sub")
        self.nthreads = len(threads)
        self.patterns = sorted({th[1] for th in threads if th[0] == "sub"})
        self.match = {(c, p): bool(fnmatch(ch, p)) for c, ch in enumerate(channels) for p in self.patterns}
        self.msg_chan: Dict[int, int] = {}
        self.msg_thread: Dict[int, int] = {}
        self.init_attrs = dict(init_attrs or {})
        self.premsgs = {ch: list(v) for ch, v in (premsgs or {}).items()}  # messages already queued when the threads start
        for ch, mids in self.premsgs.items():
            for m in mids:
                self.msg_chan[m] = channels.index(ch)
                self.msg_thread[m] = -1
        for t, th in enumerate(threads):
            if th[0] == "pub":
                for (c, m) in th[1]:
                    self.msg_chan[m] = c
                    self.msg_thread[m] = t
        self.nlocks0 = len(facts.instance_locks)
        self.varnames: List[str] = []
        self.regtags: Optional[Dict[Tuple[str, str], frozenset]] = None
        self.regtags_acc: Dict[Tuple[str, str], set] = {}
        self.solver_time = 0.0
        self.queries = 0

    def prog(self, t) -> Program:
        return self.pub if self.threads[t][0] == "pub" else self.sub

    # ---- state layout
    def state_vars(self) -> List[str]:
        B = self.B
        v = ["ordctr", "nd", "nl", "ovf"]
        for c in range(B.nchan):
            v += ["Qp%d" % c, "Qd%d" % c, "Ql%d" % c, "Qo%d" % c]
        for d in range(1, B.nd + 1):
            v += ["head%d" % d, "tail%d" % d] + ["buf%d_%d" % (d, i) for i in range(B.m)]
        for l in range(B.nl + 1):
            v.append("own%d" % l)
        for name in sorted(self.facts.transport_attrs):
            v += ["A_%s_%s" % (name, x) for x in "tab"]  # plain instance attributes of the transport: shared, mutable
        for t in range(self.nthreads):
            P = self.prog(t)
            v += ["pc%d" % t, "err%d" % t, "call%d" % t, "nlog%d" % t] + ["log%d_%d" % (t, i) for i in range(B.logn)]
            for r in sorted(P.regs):
                v += ["r%d_%s_%s" % (t, r, x) for x in "tab"]
            for s in P.for_slots:
                v.append("fs%d_%d_last" % (t, s))
                for c in range(B.nchan):
                    v += ["fs%d_%d_%s%d" % (t, s, x, c) for x in "pdlo"]
            for n in P.nodes:
                if n.kind == "with_enter":
                    v.append("ws%d_%d" % (t, n.id))
        return v

    def initial(self) -> Dict[str, Any]:
        s: Dict[str, Any] = {name: _I(0) for name in self.state_vars()}
        nd = 0
        nl = self.nlocks0 - 1  # instance locks take ids 0..nlocks0-1
        order = 0
        for ch in self.pre:
            c = self.channels.index(ch)
            nd += 1
            nl += 1
            s["Qp%d" % c], s["Qd%d" % c], s["Ql%d" % c], s["Qo%d" % c] = _I(1), _I(nd), _I(nl), _I(order)
            for k, m in enumerate(self.premsgs.get(ch, [])):
                s["buf%d_%d" % (nd, k)] = _I(m)
            s["tail%d" % nd] = _I(len(self.premsgs.get(ch, [])))
            order += 1
        s["nd"], s["nl"], s["ordctr"] = _I(nd), _I(nl), _I(order)
        for name, val in self.facts.transport_attrs.items():
            s["A_%s_t" % name] = _I(NONE if val is None else BOOL)
            s["A_%s_a" % name] = _I(0 if val is None else int(val))
            ia = self.init_attrs.get(name)
            if ia is None:
                continue
            if ia[0] == "none":
                s["A_%s_t" % name], s["A_%s_a" % name] = _I(NONE), _I(0)
            elif ia[0] == "bool":
                s["A_%s_t" % name], s["A_%s_a" % name] = _I(BOOL), _I(int(ia[1]))
            elif ia[0] == "chan" and ia[1] in self.channels:
                s["A_%s_t" % name], s["A_%s_a" % name] = _I(CHAN), _I(self.channels.index(ia[1]))
            elif ia[0] == "pair" and ia[1] in self.channels:
                c = self.channels.index(ia[1])
                s["A_%s_t" % name], s["A_%s_a" % name], s["A_%s_b" % name] = _I(PAIR), s["Qd%d" % c], s["Ql%d" % c]
            else:
                raise Unsupported("attribute %s holds a value after the set-up phase that the model cannot represent (%r)" % (name, ia))
        for t in range(self.nthreads):
            P = self.prog(t)
            s["pc%d" % t] = _I(P.entry)
            for s_ in P.for_slots:
                s["fs%d_%d_last" % (t, s_)] = _I(-1)
        # run the thread-local prefix of every thread (up to its first non-local line event)
        for t in range(self.nthreads):
            P = self.prog(t)
            fr = Frame(self, s, t)
            self._bind_call(fr, t, z3.BoolVal(True))
            self._goto(fr, P, P.entry, z3.BoolVal(True), 0)
            s = dict(s)
            s.update({k: z3.simplify(v) for k, v in fr.ov.items()})
        return s

    # ---- thread-call binding (parameters of publish / attributes of the subscription)
    def _bind_call(self, fr: Frame, t: int, guard):
        th = self.threads[t]
        P = self.prog(t)
        if th[0] == "pub":
            call = fr.get("call%d" % t)
            chan = _I(th[1][-1][0])
            for i in range(len(th[1]) - 2, -1, -1):
                chan = z3.If(call == i, th[1][i][0], chan)
            if "channel" in P.regs:
                fr.setreg("channel", V(CHAN, chan), guard)
            if "require_ack" in P.regs:
                fr.setreg("require_ack", V(BOOL, 0), guard)
            for r in ("data", "context", "metadata"):
                if r in P.regs:
                    fr.setreg(r, V(OPAQUE), guard)

    def cur_msg(self, fr: Frame) -> Any:
        th = self.threads[fr.t]
        call = fr.get("call%d" % fr.t)
        m = _I(th[1][-1][1])
        for i in range(len(th[1]) - 2, -1, -1):
            m = z3.If(call == i, th[1][i][1], m)
        return m

    # ---- control transfer: follow successors through local nodes inside the same macro step
    def _goto(self, fr: Frame, P: Program, target: int, guard, depth: int):
        if depth > 60:
            raise Unsupported("more than 60 thread-local line events in a row (local loop?)")
        t = fr.t
        if target == END:
            th = self.threads[t]
            if th[0] == "pub" and len(th[1]) > 1:
                call = fr.get("call%d" % t)
                more = call + 1 < len(th[1])
                fr.set("pc%d" % t, _I(DONE), z3.And(guard, z3.Not(more)))
                g2 = z3.And(guard, more)
                fr.set("call%d" % t, call + 1, g2)
                self._bind_call(fr, t, g2)
                self._goto(fr, P, P.entry, g2, depth + 1)
            else:
                fr.set("pc%d" % t, _I(DONE), guard)
            return
        node = P.nodes[target]
        if not node.local:
            fr.set("pc%d" % t, _I(target), guard)
            return
        self._exec(fr, P, node, guard, depth + 1)

    def _finish(self, fr: Frame, P: Program, succs: List[Tuple[Any, int]], guard, depth: int):
        """after a node: an escaped exception ends the thread, otherwise go on."""
        err = fr.get("err%d" % fr.t) == 1
        fr.set("pc%d" % fr.t, _I(DONE), z3.And(guard, err))
        ok = z3.And(guard, z3.Not(err))
        for cond, succ in succs:
            g = z3.simplify(z3.And(ok, cond))
            if z3.is_false(g):
                continue
            self._goto(fr, P, succ, g, depth)

    # ---- node semantics
    def _exec(self, fr: Frame, P: Program, node: Node, guard, depth: int = 0):
        k = node.kind
        kw = node.kw
        fr.dirty = False
        fr.miss = None
        if k == "simple":
            self._exec_stmt(fr, node.stmt, guard, allow_miss="factory" in kw)
            succs = [(z3.BoolVal(True), kw["succ"])]
            if fr.miss is not None:
                # the statement is abandoned at the failed lookup; the factory line event comes next
                miss = fr.miss
                fr.miss = None
                fr.set("pc%d" % fr.t, _I(kw["factory"]), z3.And(guard, miss), raw=True)
                succs = [(z3.Not(miss), kw["succ"])]
            self._finish(fr, P, succs, guard, depth)
        elif k == "factory":
            self._exec_factory(fr, node.stmt, guard)
            self._finish(fr, P, [(z3.BoolVal(True), kw["succ"])], guard, depth)
        elif k == "jump":
            self._finish(fr, P, [(z3.BoolVal(True), kw["succ"])], guard, depth)
        elif k == "branch":
            c = self.truthy(fr, self.ev(fr, node.stmt, guard), guard)
            self._finish(fr, P, [(c, kw["then"]), (z3.Not(c), kw["els"])], guard, depth)
        elif k == "with_enter":
            lk = self.ev(fr, node.stmt.items[0].context_expr, guard)
            g = fr.error(lk.tag != LOCK, guard)
            self._set_owner(fr, lk.a, fr.t + 1, g)
            fr.set("ws%d_%d" % (fr.t, node.id), lk.a, g)
            self._finish(fr, P, [(z3.BoolVal(True), kw["succ"])], guard, depth)
        elif k == "with_exit":
            l = fr.get("ws%d_%d" % (fr.t, kw["wid"]))
            self._set_owner(fr, l, 0, guard)
            self._finish(fr, P, [(z3.BoolVal(True), kw["succ"])], guard, depth)
        elif k == "yield":
            v = self.ev(fr, node.stmt.value.value, guard)
            g = fr.error(v.tag != MSG, guard)  # the consumer reads msg.data
            n = fr.get("nlog%d" % fr.t)
            fr.overflow(n >= self.B.logn, g)
            for i in range(self.B.logn):
                fr.set("log%d_%d" % (fr.t, i), v.a, z3.And(g, n == i))
            fr.set("nlog%d" % fr.t, n + 1, g)
            self._finish(fr, P, [(z3.BoolVal(True), kw["succ"])], guard, depth)
        elif k in ("for_init", "for_next"):
            self._exec_for(fr, P, node, guard, depth)
        else:
            raise Unsupported("node kind %s" % k)

    def enabled_cond(self, st: Dict[str, Any], t: int, node: Node):
        """z3 condition under which thread t parked at `node` can take its step (lock free for a with-entry)."""
        if node.kind == "with_enter":
            fr = Frame(self, st, t)
            lk = self.ev(fr, node.stmt.items[0].context_expr, z3.BoolVal(True))
            if fr.ov:
                raise Unsupported("lock expression with side effects")
            return z3.Or(lk.tag != LOCK, self._owner(fr, lk.a) == 0)
        if node.kind == "simple" and self._is_acquire(node.stmt):
            fr = Frame(self, st, t)
            lk = self.ev(fr, node.stmt.value.func.value, z3.BoolVal(True))
            return z3.Or(lk.tag != LOCK, self._owner(fr, lk.a) == 0)
        return z3.BoolVal(True)

    @staticmethod
    def _is_acquire(st) -> bool:
        return isinstance(st, ast.Expr) and isinstance(st.value, ast.Call) and isinstance(st.value.func, ast.Attribute) and st.value.func.attr == "acquire" and not st.value.args and not st.value.keywords

    # ---- heap primitives
    def _owner(self, fr: Frame, l):
        e = _I(-1)
        for i in range(self.B.nl + 1):
            e = z3.If(l == i, fr.get("own%d" % i), e)
        return e

    def _set_owner(self, fr: Frame, l, val, guard):
        for i in range(self.B.nl + 1):
            fr.set("own%d" % i, _I(val), z3.And(guard, l == i))

    def _alloc_deque(self, fr: Frame, guard):
        nd = fr.get("nd") + 1
        fr.overflow(nd > self.B.nd, guard)
        fr.set("nd", nd, guard)
        for d in range(1, self.B.nd + 1):
            fr.set("head%d" % d, _I(0), z3.And(guard, nd == d))
            fr.set("tail%d" % d, _I(0), z3.And(guard, nd == d))
        return nd

    def _alloc_lock(self, fr: Frame, guard):
        nl = fr.get("nl") + 1
        fr.overflow(nl > self.B.nl, guard)
        fr.set("nl", nl, guard)
        for i in range(self.B.nl + 1):
            fr.set("own%d" % i, _I(0), z3.And(guard, nl == i))
        return nl

    def _dq(self, fr: Frame, d, what):
        e = _I(0)
        for i in range(1, self.B.nd + 1):
            e = z3.If(d == i, fr.get("%s%d" % (what, i)), e)
        return e

    def _dq_len(self, fr, d):
        return self._dq(fr, d, "tail") - self._dq(fr, d, "head")

    def _buf(self, fr: Frame, d, idx):
        e = _I(0)
        for i in range(1, self.B.nd + 1):
            for j in range(self.B.m):
                e = z3.If(z3.And(d == i, idx == j), fr.get("buf%d_%d" % (i, j)), e)
        return e

    def _append(self, fr: Frame, d, msg, guard):
        tail = self._dq(fr, d, "tail")
        fr.overflow(tail >= self.B.m, guard)
        for i in range(1, self.B.nd + 1):
            for j in range(self.B.m):
                fr.set("buf%d_%d" % (i, j), msg, z3.And(guard, d == i, tail == j))
            fr.set("tail%d" % i, tail + 1, z3.And(guard, d == i))
        fr.dirty = True

    def _popleft(self, fr: Frame, d, guard) -> Tuple[Any, Any]:
        """returns (msg, guard for normal continuation); IndexError on an empty deque."""
        head = self._dq(fr, d, "head")
        empty = self._dq_len(fr, d) <= 0
        g = fr.error(empty, guard)
        msg = self._buf(fr, d, head)
        for i in range(1, self.B.nd + 1):
            fr.set("head%d" % i, head + 1, z3.And(g, d == i))
        fr.dirty = True
        return msg, g

    def _popright(self, fr: Frame, d, guard):
        tail = self._dq(fr, d, "tail")
        empty = self._dq_len(fr, d) <= 0
        g = fr.error(empty, guard)
        msg = self._buf(fr, d, tail - 1)
        for i in range(1, self.B.nd + 1):
            fr.set("tail%d" % i, tail - 1, z3.And(g, d == i))
        fr.dirty = True
        return msg, g

    def _qget(self, fr: Frame, c, what):
        e = _I(0)
        for i in range(self.B.nchan):
            e = z3.If(c == i, fr.get("Q%s%d" % (what, i)), e)
        return e

    def _qstore(self, fr: Frame, c, v: V, guard):
        """dict[c] = v  (v must be a (deque, lock) pair)."""
        g = fr.error(v.tag != PAIR, guard)  # the model tracks pairs only: anything else is treated as an escaping error
        present = self._qget(fr, c, "p") == 1
        oc = fr.get("ordctr")
        for i in range(self.B.nchan):
            gi = z3.And(g, c == i)
            fr.set("Qd%d" % i, v.a, gi)
            fr.set("Ql%d" % i, v.b, gi)
            fr.set("Qo%d" % i, oc, z3.And(gi, z3.Not(present)))
            fr.set("Qp%d" % i, _I(1), gi)
        fr.set("ordctr", oc + 1, z3.And(g, z3.Not(present)))
        fr.dirty = True

    def _qdel(self, fr: Frame, c, guard):
        for i in range(self.B.nchan):
            fr.set("Qp%d" % i, _I(0), z3.And(guard, c == i))
        fr.dirty = True

    # ---- expression evaluation
    def truthy(self, fr: Frame, v: V, guard):
        may = (lambda tg: True) if v.tags is None else (lambda tg: tg in v.tags)
        e = z3.BoolVal(True)
        if may(DEQUE):
            e = z3.If(v.tag == DEQUE, self._dq_len(fr, v.a) > 0, e)
        if may(INT) or may(BOOL):
            e = z3.If(z3.Or(v.tag == INT, v.tag == BOOL), v.a != 0, e)
        if may(NONE):
            e = z3.If(v.tag == NONE, False, e)
        return e

    def ev(self, fr: Frame, e, guard) -> V:
        if isinstance(e, ast.Constant):
            if e.value is None:
                return V(NONE)
            if isinstance(e.value, bool):
                return V(BOOL, int(e.value))
            if isinstance(e.value, int):
                return V(INT, e.value)
            return V(OPAQUE)
        if isinstance(e, ast.Name):
            if e.id in self.prog(fr.t).regs and ("r%d_%s_t" % (fr.t, e.id)) in fr.base:
                return fr.reg(e.id)
            raise Unsupported("name %r" % e.id)
        if isinstance(e, ast.Attribute) and isinstance(e.value, ast.Name) and e.value.id == "self":
            th = self.threads[fr.t]
            if th[0] == "pub":
                if e.attr in self.facts.instance_locks:
                    return V(LOCK, self.facts.instance_locks[e.attr])
                if e.attr in self.facts.transport_attrs:
                    pfx = "A_%s_" % e.attr
                    return V(fr.get(pfx + "t"), fr.get(pfx + "a"), fr.get(pfx + "b"), frozenset(ALL_TAGS))
            else:
                if e.attr == "_closed":
                    return V(BOOL, 0)
            raise Unsupported("attribute self.%s in %s" % (e.attr, th[0]))
        if isinstance(e, ast.Tuple):
            if len(e.elts) == 2:
                x, y = self.ev(fr, e.elts[0], guard), self.ev(fr, e.elts[1], guard)
                # only (deque, lock) pairs are modelled
                return V(z3.If(z3.And(x.tag == DEQUE, y.tag == LOCK), _I(PAIR), _I(OPAQUE)), x.a, y.a, frozenset([PAIR]) if (x.tags == frozenset([DEQUE]) and y.tags == frozenset([LOCK])) else frozenset([PAIR, OPAQUE]))
            raise Unsupported("tuple of %d" % len(e.elts))
        if isinstance(e, ast.IfExp):
            c = self.truthy(fr, self.ev(fr, e.test, guard), guard)
            a = self.ev(fr, e.body, z3.And(guard, c))
            b = self.ev(fr, e.orelse, z3.And(guard, z3.Not(c)))
            return vite(c, a, b)
        if isinstance(e, ast.BoolOp):
            vals = e.values
            res = self.ev(fr, vals[0], guard)
            g = guard
            for nxt in vals[1:]:
                tr = self.truthy(fr, res, g)
                go = tr if isinstance(e.op, ast.And) else z3.Not(tr)
                g2 = z3.And(g, go)
                r2 = self.ev(fr, nxt, g2)
                res = vite(go, r2, res)
                g = g2
            return res
        if isinstance(e, ast.UnaryOp) and isinstance(e.op, ast.Not):
            return V(BOOL, z3.If(self.truthy(fr, self.ev(fr, e.operand, guard), guard), _I(0), _I(1)))
        if isinstance(e, ast.Compare) and len(e.ops) == 1:
            return self._compare(fr, e, guard)
        if isinstance(e, ast.Subscript) and isinstance(e.ctx, ast.Load):
            if _is_queues(e.value):
                key = self.ev(fr, e.slice, guard)
                if fr.dirty and self.facts.queues_kind == "defaultdict":
                    raise Unsupported("defaultdict lookup after a shared write in the same statement")
                present = self._qget(fr, key.a, "p") == 1
                if self.facts.queues_kind == "defaultdict":
                    if not getattr(fr, "_allow_miss", False):
                        raise Unsupported("defaultdict lookup in an unsupported position")
                    m = z3.And(guard, z3.Not(present))
                    fr.miss = m if fr.miss is None else z3.Or(fr.miss, m)
                else:
                    fr.error(z3.Not(present), guard)  # KeyError
                return V(PAIR, self._qget(fr, key.a, "d"), self._qget(fr, key.a, "l"))
            base = self.ev(fr, e.value, guard)
            idx = e.slice.value if isinstance(e.slice, ast.Constant) else (-e.slice.operand.value if isinstance(e.slice, ast.UnaryOp) and isinstance(e.slice.op, ast.USub) and isinstance(e.slice.operand, ast.Constant) else None)
            if idx in (0, 1, -1):
                # pair[0] / pair[1] / pair[-1]; deque[0] / deque[-1] peek (IndexError when empty)
                is_dq = base.tag == DEQUE
                g = fr.error(z3.And(base.tag != PAIR, z3.Not(is_dq)), guard)
                if idx == 1:
                    fr.overflow(is_dq, g)  # deque[1] is not modelled
                g = fr.error(z3.And(is_dq, self._dq_len(fr, base.a) <= 0), g)
                head, tail = self._dq(fr, base.a, "head"), self._dq(fr, base.a, "tail")
                peek = V(MSG, self._buf(fr, base.a, head if idx == 0 else tail - 1))
                pairv = V(DEQUE, base.a) if idx == 0 else V(LOCK, base.b)
                may_dq = base.tags is None or DEQUE in base.tags
                may_pair = base.tags is None or PAIR in base.tags
                if may_dq and not may_pair:
                    return peek
                if may_pair and not may_dq:
                    return pairv
                return vite(is_dq, peek, pairv)
            raise Unsupported("subscript")
        if isinstance(e, ast.Call):
            return self._call(fr, e, guard)
        if isinstance(e, ast.Dict) and not e.keys:
            return V(OPAQUE)
        if isinstance(e, ast.Lambda):
            return V(OPAQUE)
        raise Unsupported("expression %s" % type(e).__name__)

    def _compare(self, fr, e, guard) -> V:
        op = e.ops[0]
        rhs = e.comparators[0]
        if isinstance(op, (ast.In, ast.NotIn)) and _is_queues(rhs):
            key = self.ev(fr, e.left, guard)
            p = self._qget(fr, key.a, "p") == 1
            return V(BOOL, _b2i(p if isinstance(op, ast.In) else z3.Not(p)))
        l, r = self.ev(fr, e.left, guard), self.ev(fr, rhs, guard)
        if isinstance(op, (ast.Is, ast.IsNot)):
            if not (isinstance(rhs, ast.Constant) and rhs.value is None):
                raise Unsupported("`is` with a non-None operand")
            c = l.tag == NONE
            return V(BOOL, _b2i(c if isinstance(op, ast.Is) else z3.Not(c)))
        if isinstance(op, (ast.Eq, ast.NotEq)):
            # identity-like equality of modelled values: same kind and same object / number (messages, channels, None ...)
            same = z3.And(l.tag == r.tag, z3.Or(l.tag == NONE, z3.And(l.a == r.a, z3.Or(l.tag != PAIR, l.b == r.b))))
            fr.overflow(z3.Or(l.tag == OPAQUE, r.tag == OPAQUE), guard)
            return V(BOOL, _b2i(same if isinstance(op, ast.Eq) else z3.Not(same)))
        both_int = z3.And(l.tag == INT, r.tag == INT)
        fr.overflow(z3.Not(both_int), guard)  # order comparisons are modelled on ints only
        tbl = {ast.Eq: l.a == r.a, ast.NotEq: l.a != r.a, ast.Lt: l.a < r.a, ast.LtE: l.a <= r.a, ast.Gt: l.a > r.a, ast.GtE: l.a >= r.a}
        if type(op) not in tbl:
            raise Unsupported("comparison %s" % type(op).__name__)
        return V(BOOL, _b2i(tbl[type(op)]))

    def _call(self, fr: Frame, e: ast.Call, guard) -> V:
        f = e.func
        if isinstance(f, ast.Name):
            if f.id == "deque" and not e.args and not e.keywords:
                return V(DEQUE, self._alloc_deque(fr, guard))
            if f.id == "Lock" and not e.args:
                return V(LOCK, self._alloc_lock(fr, guard))
            if f.id == "Message":
                if self.threads[fr.t][0] != "pub":
                    raise Unsupported("Message() outside publish")
                return V(MSG, self.cur_msg(fr))
            if f.id == "fnmatch" and len(e.args) == 2:
                ch = self.ev(fr, e.args[0], guard)
                pat = e.args[1]
                if not (isinstance(pat, ast.Attribute) and pat.attr == "_pattern"):
                    raise Unsupported("fnmatch second argument")
                th = self.threads[fr.t]
                if th[0] != "sub":
                    raise Unsupported("fnmatch outside the subscription")
                fr.error(ch.tag != CHAN, guard)
                c = z3.BoolVal(False)
                for i in range(self.B.nchan):
                    if self.match[(i, th[1])]:
                        c = z3.Or(c, ch.a == i)
                return V(BOOL, _b2i(c))
            if f.id == "len" and len(e.args) == 1:
                v = self.ev(fr, e.args[0], guard)
                fr.overflow(v.tag != DEQUE, guard)
                return V(INT, self._dq_len(fr, v.a))
            if f.id == "Future":
                return V(OPAQUE)
            raise Unsupported("call of %s" % f.id)
        if isinstance(f, ast.Attribute):
            if isinstance(f.value, ast.Name) and f.value.id == "threading" and f.attr == "Lock" and not e.args:
                return V(LOCK, self._alloc_lock(fr, guard))
            if _is_queues(f.value):
                return self._queues_method(fr, f.attr, e, guard)
            recv = self.ev(fr, f.value, guard)
            if f.attr in ("append", "appendleft") and len(e.args) == 1:
                if f.attr == "appendleft":
                    raise Unsupported("appendleft")
                x = self.ev(fr, e.args[0], guard)
                g = fr.error(recv.tag != DEQUE, guard)
                fr.overflow(x.tag != MSG, g)
                self._append(fr, recv.a, x.a, g)
                return V(NONE)
            if f.attr == "popleft" and not e.args:
                g = fr.error(recv.tag != DEQUE, guard)
                m, _ = self._popleft(fr, recv.a, g)
                return V(MSG, m)
            if f.attr == "pop" and not e.args:
                g = fr.error(recv.tag != DEQUE, guard)
                m, _ = self._popright(fr, recv.a, g)
                return V(MSG, m)
            if f.attr == "release" and not e.args:
                g = fr.error(recv.tag != LOCK, guard)
                self._set_owner(fr, recv.a, 0, g)
                return V(NONE)
            if f.attr == "acquire" and not e.args:
                g = fr.error(recv.tag != LOCK, guard)
                self._set_owner(fr, recv.a, fr.t + 1, g)
                return V(BOOL, 1)
            if f.attr == "set_result":
                return V(NONE)
            raise Unsupported("method .%s()" % f.attr)
        raise Unsupported("call")

    def _queues_method(self, fr: Frame, name: str, e: ast.Call, guard) -> V:
        if name == "get" and len(e.args) in (1, 2) and not e.keywords:
            key = self.ev(fr, e.args[0], guard)
            dflt = self.ev(fr, e.args[1], guard) if len(e.args) == 2 else V(NONE)
            p = self._qget(fr, key.a, "p") == 1
            return vite(p, V(PAIR, self._qget(fr, key.a, "d"), self._qget(fr, key.a, "l")), dflt)
        if name == "setdefault" and len(e.args) == 2 and not e.keywords:
            key = self.ev(fr, e.args[0], guard)
            val = self.ev(fr, e.args[1], guard)  # evaluated (allocated) unconditionally, as Python does
            p = self._qget(fr, key.a, "p") == 1
            cur = V(PAIR, self._qget(fr, key.a, "d"), self._qget(fr, key.a, "l"))
            self._qstore(fr, key.a, val, z3.And(guard, z3.Not(p)))
            return vite(p, cur, val)
        if name == "pop" and len(e.args) in (1, 2) and not e.keywords:
            key = self.ev(fr, e.args[0], guard)
            p = self._qget(fr, key.a, "p") == 1
            cur = V(PAIR, self._qget(fr, key.a, "d"), self._qget(fr, key.a, "l"))
            if len(e.args) == 2:
                dflt = self.ev(fr, e.args[1], guard)
                self._qdel(fr, key.a, z3.And(guard, p))
                return vite(p, cur, dflt)
            g = fr.error(z3.Not(p), guard)
            self._qdel(fr, key.a, g)
            return cur
        raise Unsupported("_queues.%s()" % name)

    # ---- statements
    def _exec_stmt(self, fr: Frame, st, guard, allow_miss=False):
        fr._allow_miss = allow_miss
        try:
            if isinstance(st, ast.Pass):
                return
            if isinstance(st, ast.Expr):
                self.ev(fr, st.value, guard)
                return
            if isinstance(st, ast.Delete):
                for tg in st.targets:
                    if isinstance(tg, ast.Subscript) and _is_queues(tg.value):
                        key = self.ev(fr, tg.slice, guard)
                        p = self._qget(fr, key.a, "p") == 1
                        g = fr.error(z3.Not(p), guard)
                        self._qdel(fr, key.a, g)
                    else:
                        raise Unsupported("del target")
                return
            if isinstance(st, ast.AnnAssign):
                if st.value is None:
                    return
                targets, value = [st.target], st.value
            elif isinstance(st, ast.Assign):
                targets, value = st.targets, st.value
            else:
                raise Unsupported("statement %s" % type(st).__name__)
            if len(targets) == 1 and isinstance(targets[0], ast.Tuple) and isinstance(value, ast.Tuple) and len(targets[0].elts) == len(value.elts) and not (len(value.elts) == 2 and all(isinstance(x, ast.Name) for x in targets[0].elts)):
                # a, b = x, y : all right-hand sides first, then the targets from left to right
                vals = [self.ev(fr, x, guard) for x in value.elts]
                g = guard if fr.miss is None else z3.And(guard, z3.Not(fr.miss))
                for tg, v in zip(targets[0].elts, vals):
                    self._assign(fr, tg, v, g)
                return
            v = self.ev(fr, value, guard)
            g = guard if fr.miss is None else z3.And(guard, z3.Not(fr.miss))
            for tg in targets:
                self._assign(fr, tg, v, g)
        finally:
            fr._allow_miss = False

    def _assign(self, fr: Frame, tg, v: V, guard):
        if isinstance(tg, ast.Name):
            fr.setreg(tg.id, v, guard)
        elif isinstance(tg, ast.Attribute) and isinstance(tg.value, ast.Name) and tg.value.id == "self" and self.threads[fr.t][0] == "pub" and tg.attr in self.facts.transport_attrs:
            pfx = "A_%s_" % tg.attr
            fr.set(pfx + "t", v.tag, guard)
            fr.set(pfx + "a", v.a, guard)
            fr.set(pfx + "b", v.b, guard)
            fr.dirty = True
        elif isinstance(tg, ast.Tuple) and len(tg.elts) == 2:
            g = fr.error(v.tag != PAIR, guard)  # unpacking None / a non-pair raises
            self._assign(fr, tg.elts[0], V(DEQUE, v.a), g)
            self._assign(fr, tg.elts[1], V(LOCK, v.b), g)
        elif isinstance(tg, ast.Subscript) and _is_queues(tg.value):
            key = self.ev(fr, tg.slice, guard)
            self._qstore(fr, key.a, v, guard)
        else:
            raise Unsupported("assignment target %s" % type(tg).__name__)

    def _exec_factory(self, fr: Frame, st, guard):
        """the defaultdict factory ran: store its result under the key, then the interrupted statement completes
        (now the lookup hits) -- all inside the factory's line event."""
        key_expr = None
        for sub in ast.walk(st):
            if isinstance(sub, ast.Subscript) and isinstance(sub.ctx, ast.Load) and _is_queues(sub.value):
                if key_expr is not None:
                    raise Unsupported("two defaultdict lookups in one statement")
                key_expr = sub.slice
        key = self.ev(fr, key_expr, guard)
        val = self.ev(fr, self.facts.factory.body, guard)
        # defaultdict.__missing__ stores unconditionally
        self._qstore(fr, key.a, val, guard)
        fr.dirty = False
        kind = self.facts.queues_kind
        self.facts.queues_kind = "dict"  # the lookup now hits: evaluate the statement as a plain lookup
        try:
            self._exec_stmt(fr, st, guard)
        finally:
            self.facts.queues_kind = kind

    def _exec_for(self, fr: Frame, P: Program, node: Node, guard, depth):
        st = node.stmt
        t, s = fr.t, node.kw["slot"]
        it = st.iter
        mode = None
        if isinstance(it, ast.Call) and isinstance(it.func, ast.Name) and it.func.id == "list" and len(it.args) == 1:
            inner = it.args[0]
            if _is_queues(inner):
                mode = "keys"
            elif isinstance(inner, ast.Call) and isinstance(inner.func, ast.Attribute) and _is_queues(inner.func.value) and inner.func.attr in ("items", "keys", "values") and not inner.args:
                mode = inner.func.attr
        if mode is None:
            raise Unsupported("for-loop iterable at line %d (only list(self._queues[.items()|.keys()|.values()]) snapshots are modelled)" % st.lineno)
        pre = "fs%d_%d_" % (t, s)
        if node.kind == "for_init":
            for c in range(self.B.nchan):
                fr.set(pre + "p%d" % c, fr.get("Qp%d" % c), guard)
                fr.set(pre + "d%d" % c, fr.get("Qd%d" % c), guard)
                fr.set(pre + "l%d" % c, fr.get("Ql%d" % c), guard)
                fr.set(pre + "o%d" % c, fr.get("Qo%d" % c), guard)
            fr.set(pre + "last", _I(-1), guard)
        last = fr.get(pre + "last")
        # next element: present entry with the smallest insertion order greater than `last`
        cand = [z3.And(fr.get(pre + "p%d" % c) == 1, fr.get(pre + "o%d" % c) > last) for c in range(self.B.nchan)]
        anyc = z3.Or(*cand) if cand else z3.BoolVal(False)
        pick = []
        for c in range(self.B.nchan):
            better = [z3.Not(z3.And(cand[c2], fr.get(pre + "o%d" % c2) < fr.get(pre + "o%d" % c))) for c2 in range(self.B.nchan) if c2 != c]
            pick.append(z3.And(cand[c], *better))
        for c in range(self.B.nchan):
            g = z3.And(guard, pick[c])
            fr.set(pre + "last", fr.get(pre + "o%d" % c), g)
            ch = V(CHAN, c)
            pair = V(PAIR, fr.get(pre + "d%d" % c), fr.get(pre + "l%d" % c))
            if mode == "items":
                tg = st.target
                if not (isinstance(tg, ast.Tuple) and len(tg.elts) == 2):
                    raise Unsupported("for target over items()")
                self._assign(fr, tg.elts[0], ch, g)
                self._assign(fr, tg.elts[1], pair, g)
            elif mode == "keys":
                self._assign(fr, st.target, ch, g)
            else:
                self._assign(fr, st.target, pair, g)
        self._finish(fr, P, [(anyc, node.kw["then"]), (z3.Not(anyc), node.kw["els"])], guard, depth)

    # ---------------------------------------------------------------------------------------------------------
    # unrolling
    # ---------------------------------------------------------------------------------------------------------
    def unroll(self, K: int):
        names = self.state_vars()
        s0 = self.initial()
        self.S: List[Dict[str, Any]] = []
        self.sched = [_Var("sched_%d" % k) for k in range(K)]
        self.cons: List[Any] = []
        self.deadlock: List[Any] = []
        cur = {n: _Var("s0_%s" % n) for n in names}
        for n in names:
            self.cons.append(cur[n] == s0[n])
        self.S.append(cur)
        # actions are generated once over the step-0 variable names and substituted for later steps.  Two passes: the first
        # collects, per register, the set of tags ever assigned to it (a static type); the second uses those types.
        def gen():
            acts = []  # (t, node, enabled_expr, overlay)
            for t in range(self.nthreads):
                P = self.prog(t)
                for node in P.nodes:
                    if node.local:
                        continue
                    fr = Frame(self, cur, t)
                    en = self.enabled_cond(cur, t, node)
                    self._exec(fr, P, node, z3.BoolVal(True))
                    acts.append((t, node, en, {k: z3.simplify(v) for k, v in fr.ov.items()}))
            return acts

        gen()
        first = {k: frozenset(v) for k, v in self.regtags_acc.items()}
        self.regtags = first
        self.regtags_acc = {}
        actions = gen()
        for k, v in self.regtags_acc.items():
            if not set(v) <= set(first.get(k, ())):
                raise Unsupported("register typing is not stable for %r" % (k,))
        self.actions = actions
        # partial-order reduction: a step that neither reads nor writes shared state (and is always enabled) is independent
        # of every step of every other thread, so {that step} is a persistent set: schedules are restricted to those that
        # take such a step at once (lowest thread first).  Only added to the unwinding / capacity / property queries --
        # conformance schedules come from the real scheduler and need not be canonical.
        shared_names = {n for n in names if n in ("ordctr", "nd", "nl") or n[:2] in ("Qp", "Qd", "Ql", "Qo") or n.startswith(("head", "tail", "buf", "own", "A_"))}
        shared_ids = {cur[n].get_id() for n in shared_names}
        self.invisible: Dict[Tuple[int, int], bool] = {}
        for (t, node, en, ov) in actions:
            vis = (not z3.is_true(z3.simplify(en))) or any(k in shared_names for k in ov)
            if not vis:
                vis = any(_mentions(e, shared_ids) for e in ov.values())
            self.invisible[(t, node.id)] = not vis
        self.por: List[Any] = []
        base_vars = [cur[n] for n in names]
        for k in range(K):
            nxt = {n: _Var("s%d_%s" % (k + 1, n)) for n in names}
            sub = list(zip(base_vars, [cur[n] for n in names])) if k > 0 else []
            sk = self.sched[k]
            upd: Dict[str, Any] = {n: cur[n] for n in names}
            en_t = [z3.BoolVal(False)] * self.nthreads
            sels = []
            for (t, node, en, ov) in actions:
                at = cur["pc%d" % t] == node.id
                en_k = z3.substitute(en, *sub) if sub else en
                en_t[t] = z3.Or(en_t[t], z3.And(at, en_k))
                sels.append((z3.And(sk == t, at), ov))
            for sel, ov in sels:
                for name, expr in ov.items():
                    e = z3.substitute(expr, *sub) if sub else expr
                    upd[name] = z3.If(sel, e, upd[name])
            any_en = z3.Or(*en_t)
            all_done = z3.And(*[cur["pc%d" % t] == DONE for t in range(self.nthreads)])
            self.cons.append(z3.And(sk >= 0, sk < self.nthreads))
            chosen_en = z3.Or(*[z3.And(sk == t, en_t[t]) for t in range(self.nthreads)])
            self.cons.append(z3.If(any_en, chosen_en, sk == 0))
            for n in names:
                self.cons.append(nxt[n] == z3.If(any_en, upd[n], cur[n]))
            self.deadlock.append(z3.And(z3.Not(any_en), z3.Not(all_done)))
            inv_t = [z3.Or(*([cur["pc%d" % t] == nid for (tt, nid), iv in self.invisible.items() if tt == t and iv] or [z3.BoolVal(False)])) for t in range(self.nthreads)]
            for t in range(self.nthreads):
                self.por.append(z3.Implies(z3.And(inv_t[t], *[z3.Not(inv_t[u]) for u in range(t)]), sk == t))
            self.S.append(nxt)
            cur = nxt
        self.K = K
        return self

    # ---- final-state predicates
    def all_done(self, k=None):
        st = self.S[self.K if k is None else k]
        return z3.And(*[st["pc%d" % t] == DONE for t in range(self.nthreads)])

    def violation_terms(self) -> Dict[str, Any]:
        st = self.S[self.K]
        B = self.B
        out: Dict[str, Any] = {}
        out["thread-raised"] = z3.Or(*[st["err%d" % t] == 1 for t in range(self.nthreads)])
        out["deadlock"] = z3.Or(*self.deadlock)
        subs = [t for t, th in enumerate(self.threads) if th[0] == "sub"]
        msgs = sorted(self.msg_chan)

        def in_log(t, m):
            return [z3.And(st["nlog%d" % t] > i, st["log%d_%d" % (t, i)] == m) for i in range(B.logn)]

        def in_rem(c, m):
            terms = []
            for d in range(1, B.nd + 1):
                for j in range(B.m):
                    terms.append(z3.And(st["Qp%d" % c] == 1, st["Qd%d" % c] == d, st["head%d" % d] <= j, j < st["tail%d" % d], st["buf%d_%d" % (d, j)] == m))
            return terms

        lost, dup = [], []
        for m in msgs:
            occ = []
            for t in subs:
                occ += in_log(t, m)
            for c in range(B.nchan):
                occ += in_rem(c, m)
            cnt = z3.Sum(*[_b2i(o) for o in occ]) if occ else _I(0)
            lost.append(cnt == 0)
            dup.append(cnt > 1)
        out["lost"] = z3.Or(*lost) if lost else z3.BoolVal(False)
        out["duplicated"] = z3.Or(*dup) if dup else z3.BoolVal(False)
        # order: m1 published before m2 by the same thread on the same channel
        reo = []
        sequences = [th[1] for th in self.threads if th[0] == "pub"] + [[(self.channels.index(ch), m) for m in mids] for ch, mids in self.premsgs.items()]
        for seq in sequences:
            for (i, (c1, m1)), (j, (c2, m2)) in itertools.combinations(list(enumerate(seq)), 2):
                if c1 != c2:
                    continue
                for s_ in subs:
                    for a in range(B.logn):
                        for b in range(a):
                            # m2 at position b < a = position of m1
                            reo.append(z3.And(st["nlog%d" % s_] > a, st["log%d_%d" % (s_, a)] == m1, st["log%d_%d" % (s_, b)] == m2))
                for c in range(B.nchan):
                    for d in range(1, B.nd + 1):
                        for a in range(B.m):
                            for b in range(a):
                                reo.append(z3.And(st["Qp%d" % c] == 1, st["Qd%d" % c] == d, st["head%d" % d] <= b, a < st["tail%d" % d], st["buf%d_%d" % (d, a)] == m1, st["buf%d_%d" % (d, b)] == m2))
        out["reordered"] = z3.Or(*reo) if reo else z3.BoolVal(False)
        pm = []
        for s_ in subs:
            pat = self.threads[s_][1]
            okm = [m for m in msgs if self.match[(self.msg_chan[m], pat)]]
            for i in range(B.logn):
                pm.append(z3.And(st["nlog%d" % s_] > i, z3.Not(z3.Or(*[st["log%d_%d" % (s_, i)] == m for m in okm])) if okm else z3.BoolVal(True)))
        out["pattern-mismatch"] = z3.Or(*pm) if pm else z3.BoolVal(False)
        # a message sitting in the queue of a channel it was not published to (an exact-name subscription would yield it)
        mis = []
        for m in msgs:
            for c in range(B.nchan):
                if c != self.msg_chan[m]:
                    mis += in_rem(c, m)
        out["misrouted"] = z3.Or(*mis) if mis else z3.BoolVal(False)
        return out

    def check(self, *extra, timeout_ms=600000, por=False):
        # solve-eqs eliminates the state-equality chain of the unrolling, bit-blast + sat decide the rest: measured 10-60x
        # faster than the default solver on these queries
        s = z3.Then("simplify", "propagate-values", "solve-eqs", "bit-blast", "sat").solver()
        s.set("timeout", timeout_ms)
        s.add(*self.cons)
        if por:
            s.add(*self.por)
        s.add(*extra)
        t0 = time.perf_counter()
        r = s.check()
        self.solver_time += time.perf_counter() - t0
        self.queries += 1
        return str(r), (s.model() if str(r) == "sat" else None)

    def trace_of(self, model) -> Dict[str, Any]:
        """schedule, (thread, line) trace and outcome of a model."""
        sched, lines = [], []
        for k in range(self.K):
            st = self.S[k]
            if all(model.eval(st["pc%d" % t], model_completion=True).as_signed_long() == DONE for t in range(self.nthreads)):
                break
            t = model.eval(self.sched[k], model_completion=True).as_signed_long()
            pc = model.eval(st["pc%d" % t], model_completion=True).as_signed_long()
            P = self.prog(t)
            sched.append(t)
            lines.append((t, P.nodes[pc].line if pc >= 0 else pc))
        st = self.S[self.K]
        ev = lambda x: model.eval(x, model_completion=True).as_signed_long()  # noqa: E731
        logs = {}
        for t, th in enumerate(self.threads):
            if th[0] == "sub":
                logs[t] = [ev(st["log%d_%d" % (t, i)]) for i in range(min(ev(st["nlog%d" % t]), self.B.logn))]
        rem = {}
        for c in range(self.B.nchan):
            if ev(st["Qp%d" % c]) == 1:
                d = ev(st["Qd%d" % c])
                if 1 <= d <= self.B.nd:
                    rem[self.channels[c]] = [ev(st["buf%d_%d" % (d, j)]) for j in range(ev(st["head%d" % d]), min(ev(st["tail%d" % d]), self.B.m))]
                else:
                    rem[self.channels[c]] = []
        errs = [t for t in range(self.nthreads) if ev(st["err%d" % t]) == 1]
        return {"schedule": sched, "lines": lines, "logs": logs, "remaining": rem, "errors": errs, "done": [ev(st["pc%d" % t]) == DONE for t in range(self.nthreads)]}
