"""Engine B-expr: Python integer expression semantics -> z3 terms (exact arithmetic, Python `int`).

Supported subset (anything else raises Unsupported -> the obligation is inconclusive, never a pass):
names, int constants, unary -, + - *, // and % (floor semantics, built from SMT-LIB Euclidean div),
** with constant exponent 0..3, abs/min/max, comparisons (bool, coerced to 0/1 in arithmetic),
`x if c else y` (truthiness of ints/bools).
Division by zero: the caller adds `divisor != 0` side conditions (returned alongside the term).
"""
from __future__ import annotations

import ast
from typing import Dict, List, Tuple

import z3


class Unsupported(Exception):
    pass


SOLVER_SECONDS = [0.0]


def _to_int(t):
    return z3.If(t, z3.IntVal(1), z3.IntVal(0)) if z3.is_bool(t) else t


def _to_bool(t):
    return t if z3.is_bool(t) else t != 0


def floordiv(a, b):
    # SMT-LIB `div` is floor division for positive divisors
    return z3.If(b > 0, a / b, (-a) / (-b))


def encode(node: ast.AST, env: Dict[str, z3.ArithRef], side: List) -> z3.ExprRef:
    if isinstance(node, ast.Expression):
        return encode(node.body, env, side)
    if isinstance(node, ast.Name):
        if node.id not in env:
            raise Unsupported("free name %s" % node.id)
        return env[node.id]
    if isinstance(node, ast.Constant):
        if isinstance(node.value, bool):
            return z3.BoolVal(node.value)
        if isinstance(node.value, int):
            return z3.IntVal(node.value)
        raise Unsupported("constant %r" % (node.value,))
    if isinstance(node, ast.UnaryOp):
        v = encode(node.operand, env, side)
        if isinstance(node.op, ast.USub):
            return -_to_int(v)
        if isinstance(node.op, ast.UAdd):
            return _to_int(v)
        raise Unsupported("unary %s" % type(node.op).__name__)
    if isinstance(node, ast.BinOp):
        l = _to_int(encode(node.left, env, side))
        if isinstance(node.op, ast.Pow):
            if not (isinstance(node.right, ast.Constant) and isinstance(node.right.value, int) and not isinstance(node.right.value, bool) and 0 <= node.right.value <= 3):
                raise Unsupported("** with non-constant or large exponent")
            out = z3.IntVal(1)
            for _ in range(node.right.value):
                out = out * l
            return out
        r = _to_int(encode(node.right, env, side))
        if isinstance(node.op, ast.Add):
            return l + r
        if isinstance(node.op, ast.Sub):
            return l - r
        if isinstance(node.op, ast.Mult):
            return l * r
        if isinstance(node.op, ast.FloorDiv):
            side.append(r != 0)
            return floordiv(l, r)
        if isinstance(node.op, ast.Mod):
            side.append(r != 0)
            return l - r * floordiv(l, r)
        raise Unsupported("binop %s" % type(node.op).__name__)
    if isinstance(node, ast.Compare):
        # a op1 b op2 c  ==  (a op1 b) and (b op2 c); operands are pure integer terms, so evaluating b once or twice is the same
        operands = [_to_int(encode(x, env, side)) for x in [node.left] + list(node.comparators)]
        conj = []
        for (l, r), op in zip(zip(operands, operands[1:]), node.ops):
            table = {ast.Lt: l < r, ast.LtE: l <= r, ast.Gt: l > r, ast.GtE: l >= r, ast.Eq: l == r, ast.NotEq: l != r}
            for k, f in table.items():
                if isinstance(op, k):
                    conj.append(f)
                    break
            else:
                raise Unsupported("cmp %s" % type(op).__name__)
        return conj[0] if len(conj) == 1 else z3.And(*conj)
    if isinstance(node, ast.BoolOp):
        # Python: `x or y` is x if x is truthy else y; `x and y` is y if x is truthy else x (values, not booleans)
        vals = [_to_int(encode(v, env, side)) for v in node.values]
        out = vals[-1]
        for v in reversed(vals[:-1]):
            out = z3.If(v != 0, v, out) if isinstance(node.op, ast.Or) else z3.If(v != 0, out, v)
        return out
    if isinstance(node, ast.IfExp):
        c = _to_bool(encode(node.test, env, side))
        a = encode(node.body, env, side)
        b = encode(node.orelse, env, side)
        if z3.is_bool(a) != z3.is_bool(b):
            a, b = _to_int(a), _to_int(b)
        return z3.If(c, a, b)
    if isinstance(node, ast.Call):
        if not isinstance(node.func, ast.Name) or node.keywords:
            raise Unsupported("call form")
        args = [_to_int(encode(a, env, side)) for a in node.args]
        f = node.func.id
        if f == "abs" and len(args) == 1:
            return z3.If(args[0] >= 0, args[0], -args[0])
        if f in ("min", "max") and len(args) >= 2:
            out = args[0]
            for a in args[1:]:
                out = z3.If(a < out, a, out) if f == "min" else z3.If(a > out, a, out)
            return out
        raise Unsupported("call %s/%d" % (f, len(args)))
    raise Unsupported(type(node).__name__)


def encode_text(text: str, names=("a", "b", "c")) -> Tuple[z3.ExprRef, List, Dict[str, z3.ArithRef]]:
    env = {n: z3.Int(n) for n in names}
    side: List = []
    t = encode(ast.parse(text, mode="eval"), env, side)
    return t, side, env


def distinguish(t1: str, t2: str, names=("a", "b", "c"), timeout_ms: int = 3000):
    """('sat', assignment) if some assignment (divisors != 0) gives different values, ('unsat', None) if
    the two expressions agree for every assignment, ('unknown', reason) otherwise."""
    e1, s1, env = encode_text(t1, names)
    e2, s2, _ = encode_text(t2, names)
    s = z3.Solver()
    s.set("timeout", timeout_ms)
    for c in s1 + s2:
        s.add(c)
    if z3.is_bool(e1) != z3.is_bool(e2):
        # Python: True == 1, False == 0
        e1, e2 = _to_int(e1), _to_int(e2)
    s.add(e1 != e2)
    import time as _t

    _t0 = _t.perf_counter()
    r = s.check()
    SOLVER_SECONDS[0] += _t.perf_counter() - _t0
    if str(r) == "sat":
        m = s.model()
        return "sat", {n: m.eval(v, model_completion=True).as_long() for n, v in env.items()}
    if str(r) == "unsat":
        return "unsat", None
    return "unknown", s.reason_unknown()


def to_smtlib(t1: str, t2: str, names=("a", "b", "c")) -> str:
    e1, s1, env = encode_text(t1, names)
    e2, s2, _ = encode_text(t2, names)
    s = z3.Solver()
    for c in s1 + s2:
        s.add(c)
    if z3.is_bool(e1) != z3.is_bool(e2):
        e1, e2 = _to_int(e1), _to_int(e2)
    s.add(e1 != e2)
    return "(set-logic ALL)\n" + s.to_smt2()
