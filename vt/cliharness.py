"""Drives the real semantiva.cli._run(Namespace) in-process: `_load_yaml` returns the configuration mapping,
`_build_trace_driver` returns an in-memory driver, `--context` values come from a table (yaml.safe_load of the
value text is C-level), plan printing is silenced.  Used by C09 and C17; every stub is listed in their evidence."""
from __future__ import annotations

import argparse
import contextlib
import io
from typing import Any, Dict, List, Optional

STUBS = [
    "cli._load_yaml -> returns the configuration mapping under test (real YAML files / PyYAML are outside)",
    "cli._build_trace_driver -> in-memory TraceDriver recording what the runtime emits",
    "cli._parse_key_value -> looks --context values up in a table (yaml.safe_load of the value text is C-level)",
    "cli._print_run_space_plan -> no-op (plan formatting uses json.dumps on run values)",
    "cli._configure_logger -> silent logger",
]

_STATE: Dict[str, Any] = {"config": None, "trace": None, "ctx": {}, "rs_file": None}
_INSTALLED = []


def install() -> None:
    import semantiva.cli as cli
    from vt import lib

    if _INSTALLED:
        return

    def _load_yaml(path):
        p = str(path)
        if _STATE["rs_file"] is not None and p.endswith("runspace.yaml"):
            return _STATE["rs_file"]
        return _STATE["config"]

    cli._load_yaml = _load_yaml
    cli._build_trace_driver = lambda trace_cfg: _STATE["trace"]
    cli._parse_key_value = lambda item: (item, _STATE["ctx"][item])
    cli._print_run_space_plan = lambda meta, runs: None
    cli._configure_logger = lambda verbose, quiet: lib.QUIET
    _INSTALLED.append(True)


def namespace(**kw) -> argparse.Namespace:
    base = dict(pipeline="/nonexistent/pipeline.yaml", overrides=[], contexts=[], verbose=False, quiet=True, exec_orchestrator=None, exec_executor=None,
                exec_transport=None, exec_options=[], trace_driver=None, trace_output=None, trace_options=[], run_space_file=None, run_space_max_runs=None,
                run_space_dry_run=False, run_space_launch_id=None, run_space_idempotency_key=None, run_space_attempt=None, validate=False, dry_run=False, command="run")
    base.update(kw)
    return argparse.Namespace(**base)


def run_cli(config: Dict[str, Any], *, trace=None, ctx: Optional[Dict[str, Any]] = None, rs_file=None, **flags) -> int:
    import semantiva.cli as cli

    install()
    _STATE["config"] = config
    _STATE["trace"] = trace
    _STATE["ctx"] = dict(ctx or {})
    _STATE["rs_file"] = rs_file
    ns = namespace(contexts=list((ctx or {}).keys()), run_space_file="/nonexistent/runspace.yaml" if rs_file is not None else None, **flags)
    out, err = io.StringIO(), io.StringIO()
    with contextlib.redirect_stdout(out), contextlib.redirect_stderr(err):
        rc = cli._run(ns)
    _STATE["stdout"], _STATE["stderr"] = out.getvalue(), err.getvalue()
    return rc
