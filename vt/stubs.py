"""Environment stubs for SYMBOLIC runs only (DESIGN 3.4).  Every stub is named in the evidence of the
obligations that use it.  Replays never call apply(): they run the unpatched stack.
"""
from __future__ import annotations

import itertools
from typing import Dict, List

APPLIED: List[str] = []
ORIG: Dict[str, object] = {}

DESCRIPTIONS: Dict[str, str] = {
    "time": "payload_processors.time / orchestrator.time -> constant clock (CrossHair's symbolic clock forks on every stopwatch call; timing is not the subject)",
    "canon-json": "graph_builder.json.dumps -> opaque counter token (would realise every configured value; identity is the subject only in C04/C05/C09 which use the injective-hash model)",
    "serialize_json_safe": "orchestrator.serialize_json_safe -> identity (JSON-safety of ints assumed)",
    "stable_equal": "delta_collector._stable_equal -> `a is b or a == b` (byte-level equality through serialize() realises values)",
    "str": "node __str__ -> constant; Logger silenced (log formatting forks/realises)",
    "semantic_id": "_SemantivaComponent.semantic_id() -> class name (metadata dump used as transport channel name realises sequence values)",
    "sha256_json": "semantic_id._sha256_json -> constant digest (digest of a sweep sequence domain realises every element at class creation)",
    "env_pins": "orchestrator._collect_env_pins_util -> constant pins collected once outside the tracer (platform.platform() breaks CrossHair's condition parser)",
    "repr": "repr() of a CrossHair symbolic value -> '<symbolic>' and BaseDataType.__repr__/__str__ -> class name (the CLI logs repr() of the result data and of every context value; output formatting is not the subject and would realise every value)",
    "datetime": "orchestrator.datetime / drivers.jsonl.datetime -> fixed instant (symbolic datetime ends paths UNKNOWN)",
}


def apply(which=("time", "canon-json", "serialize_json_safe", "stable_equal", "str", "semantic_id", "sha256_json", "env_pins", "datetime")) -> None:
    import semantiva.core.semantiva_component as sc
    import semantiva.execution.orchestrator.orchestrator as orch
    import semantiva.metadata.semantic_id as sid
    import semantiva.pipeline.graph_builder as gb
    import semantiva.pipeline.nodes.nodes as nn
    import semantiva.pipeline.payload_processors as pp
    import semantiva.trace._utils as tu
    import semantiva.trace.delta_collector as dc
    import semantiva.trace.drivers.jsonl as jl

    for w in which:
        if w in APPLIED:
            continue
        if w == "time":

            class _FakeTime:
                def time(self):
                    return 0.0

                def process_time(self):
                    return 0.0

            pp.time = _FakeTime()
            orch.time = _FakeTime()
        elif w == "canon-json":
            ORIG["canon-json"] = gb.json
            ctr = itertools.count()

            class _FakeJson:
                @staticmethod
                def dumps(obj, **kw):
                    return "canon-%d" % next(ctr)

            gb.json = _FakeJson()
        elif w == "serialize_json_safe":
            ORIG["serialize_json_safe"] = orch.serialize_json_safe
            orch.serialize_json_safe = lambda o: o
        elif w == "stable_equal":
            ORIG["stable_equal"] = dc._stable_equal
            dc._stable_equal = lambda a, b: a is b or a == b
        elif w == "str":
            for c in (nn._DataNode, nn._ProbeContextInjectorNode, nn._ContextProcessorNode):
                c.__str__ = lambda self: "node"
        elif w == "semantic_id":
            ORIG["semantic_id"] = sc._SemantivaComponent.__dict__["semantic_id"]
            sc._SemantivaComponent.semantic_id = classmethod(lambda cls: cls.__name__)
        elif w == "sha256_json":
            ORIG["sha256_json"] = sid._sha256_json
            sid._sha256_json = lambda obj: "digest"
        elif w == "env_pins":
            import platform as _pl

            _pl.platform()
            _pl.python_version()
            _pl.python_implementation()
            pins = tu.collect_env_pins()
            orch._collect_env_pins_util = lambda: dict(pins)
        elif w == "repr":
            from vt import xh_patches

            xh_patches.apply()
            from crosshair import core as _core
            from crosshair.libimpl import builtinslib as bl
            from crosshair.tracers import NoTracing
            from semantiva.data_types import BaseDataType

            _orig_repr = _core._PATCH_REGISTRATIONS.get(repr, repr)

            def _repr(o):
                with NoTracing():
                    sym = isinstance(o, (bl.AnySymbolicStr, bl.SymbolicNumberAble)) or type(o).__module__.startswith("crosshair")
                if sym:
                    return "<symbolic>"
                return _orig_repr(o)

            _core._PATCH_REGISTRATIONS[repr] = _repr
            BaseDataType.__repr__ = lambda self: type(self).__name__
            BaseDataType.__str__ = lambda self: type(self).__name__
        elif w == "datetime":
            import datetime as _dt

            class _FakeDateTime:
                _fixed = _dt.datetime(2026, 1, 2, 3, 4, 5, 678000)

                @classmethod
                def now(cls, tz=None):
                    return cls._fixed

            orch.datetime = _FakeDateTime
            jl.datetime = _FakeDateTime
        else:
            raise ValueError(w)
        APPLIED.append(w)


def described(which) -> List[str]:
    return [DESCRIPTIONS[w] for w in which]


import contextlib


@contextlib.contextmanager
def suspended(which=("canon-json", "serialize_json_safe", "stable_equal", "semantic_id", "sha256_json")):
    """Temporarily restore the real implementations (for obligations that run concretely under NoTracing)."""
    import semantiva.core.semantiva_component as sc
    import semantiva.execution.orchestrator.orchestrator as orch
    import semantiva.metadata.semantic_id as sid
    import semantiva.pipeline.graph_builder as gb
    import semantiva.trace.delta_collector as dc

    slots = {"canon-json": (gb, "json"), "serialize_json_safe": (orch, "serialize_json_safe"), "stable_equal": (dc, "_stable_equal"), "semantic_id": (sc._SemantivaComponent, "semantic_id"), "sha256_json": (sid, "_sha256_json")}
    saved = []
    for w in which:
        if w in ORIG:
            obj, attr = slots[w]
            saved.append((obj, attr, obj.__dict__[attr] if isinstance(obj, type) else getattr(obj, attr)))
            setattr(obj, attr, ORIG[w])
    try:
        yield
    finally:
        for obj, attr, val in saved:
            setattr(obj, attr, val)
