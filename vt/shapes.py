"""Shape templates (DESIGN 3.1): the finite part of a pipeline "program" -- which component where, where each
parameter is placed, which key names -- written once in a small DSL that both the real run and the reference
model interpret.  Everything value-like is a *slot*: "v<i>" (int) or "f<i>" (bool, presence/placement flag),
bound to symbolic variables by the obligation body.

Template = {"name", "data": ("int","v0")|("none",)|("coll",[slots])|("other","v0")|("subint","v0"),
            "ctx":   [(key, vslot, fslot|None), ...],         # initial context entries (present iff flag)
            "nodes": [("comp", Name, [(param, vslot|const, fslot|None)...] [, context_key]),
                      ("slice", Name, cfg [, context_key]), ("rename", src, dst), ("delete", key),
                      ("template", [keys], out)]}
"""
from __future__ import annotations

import itertools
import random
from typing import Any, Dict, List, Tuple

NV = 12
NF = 12


def _val(s, V, S=None):
    if isinstance(s, str) and s[0] == "v" and s[1:].isdigit():
        return V[int(s[1:])]
    if isinstance(s, str) and s[0] == "s" and s[1:].isdigit():
        return S[int(s[1:])]
    return s  # constant


def uses_strings(T) -> bool:
    return any(isinstance(e[1], str) and e[1][0] == "s" and e[1][1:].isdigit() for e in T.get("ctx", []))


def _flag(s, F):
    if s is None:
        return True
    return F[int(s[1:])]


def instantiate(T: Dict[str, Any], V, F, S=None):
    """-> (ref_nodes, ref_data, ctx0) with cfg dicts decided under the (possibly symbolic) flags."""
    d = T["data"]
    if d[0] == "none":
        data = ("none",)
    elif d[0] == "coll":
        data = ("coll", [_val(s, V) for s in d[1]])
    else:
        data = (d[0], _val(d[1], V))
    ctx0: Dict[str, Any] = {}
    for key, vs, fs in T.get("ctx", []):
        if _flag(fs, F):
            ctx0[key] = _val(vs, V, S)
    nodes = []
    for nd in T["nodes"]:
        if nd[0] in ("comp", "slice"):
            cfg = {}
            for pn, vs, fs in nd[2]:
                if _flag(fs, F):
                    cfg[pn] = _val(vs, V)
            nodes.append((nd[0], nd[1], cfg) + tuple(nd[3:]))
        else:
            nodes.append(tuple(nd))
    return nodes, data, ctx0


def to_real(nodes, data):
    """Reference-form nodes/data -> real semantiva node configuration list and payload data object."""
    from vt import lib

    real = []
    for nd in nodes:
        k = nd[0]
        if k == "comp":
            cfg: Dict[str, Any] = {"processor": getattr(lib, nd[1]), "parameters": dict(nd[2])}
            if len(nd) > 3 and nd[3] is not None:
                cfg["context_key"] = nd[3]
            real.append(cfg)
        elif k == "slice":
            cls = {"OpAdd": lib.SlAdd, "OpAddDef": lib.SlAddDef, "PrParam": lib.SlPrParam, "OpCtxW": lib.SlCtxW}[nd[1]]
            cfg = {"processor": cls, "parameters": dict(nd[2])}
            if len(nd) > 3 and nd[3] is not None:
                cfg["context_key"] = nd[3]
            real.append(cfg)
        elif k == "rename":
            real.append({"processor": "rename:%s:%s" % (nd[1], nd[2])})
        elif k == "delete":
            real.append({"processor": "delete:%s" % nd[1]})
        elif k == "template":
            real.append({"processor": 'template:"%s":%s' % ("_".join("{%s}" % x for x in nd[1]), nd[2])})
        else:
            raise AssertionError(k)
    return real, real_data(data)


def real_data(data):
    from semantiva.data_types import NoDataType
    from vt import lib

    t = data[0]
    if t == "none":
        return NoDataType()
    if t == "int":
        return lib.IntData(data[1])
    if t == "subint":
        return lib.SubIntData(data[1])
    if t == "other":
        return lib.OtherData(data[1])
    if t == "coll":
        return lib.IntColl.from_list([lib.IntData(x) for x in data[1]])
    raise AssertionError(t)


def ref_data(obj):
    """Real payload data object -> reference form."""
    from semantiva.data_types import NoDataType
    from vt import lib

    if isinstance(obj, NoDataType):
        return ("none",)
    if isinstance(obj, lib.IntColl):
        return ("coll", [e.data for e in obj])
    if isinstance(obj, lib.SubIntData):
        return ("subint", obj.data)
    if isinstance(obj, lib.IntData):
        return ("int", obj.data)
    if isinstance(obj, lib.OtherData):
        return ("other", obj.data)
    return ("unknown", type(obj).__name__)


def same_data(a, b) -> bool:
    """Reference-form data equality (subint vs int distinguished)."""
    if a[0] != b[0]:
        return False
    if a[0] == "none":
        return True
    if a[0] == "coll":
        return len(a[1]) == len(b[1]) and all(x == y for x, y in zip(a[1], b[1]))
    return a[1] == b[1]


# ---------------------------------------------------------------------------------------------------
# template library
# ---------------------------------------------------------------------------------------------------
def _t(name, data, ctx, nodes):
    return {"name": name, "data": data, "ctx": ctx, "nodes": nodes}


INT = ("int", "v0")
NONE = ("none",)
COLL = ("coll", ["v0", "v10", "v11"])


def length1() -> List[Dict[str, Any]]:
    """Every component once, every placement of its parameters symbolic (config flag, context flag, default)."""
    T = []
    T.append(_t("1.SrcV", NONE, [("value", "v1", "f0")], [("comp", "SrcV", [("value", "v2", "f1")])]))
    T.append(_t("1.SrcD", NONE, [("value", "v1", "f0")], [("comp", "SrcD", [("value", "v2", "f1")])]))
    T.append(_t("1.SrcV.fed", INT, [], [("comp", "SrcV", [("value", "v2", None)])]))
    T.append(_t("1.PSrc", NONE, [("value", "v1", "f0"), ("a", "v3", "f2")], [("comp", "PSrc", [("value", "v2", "f1")])]))
    T.append(_t("1.OpAdd", INT, [("addend", "v1", "f0")], [("comp", "OpAdd", [("addend", "v2", "f1")])]))
    T.append(_t("1.OpAddDef", INT, [("addend", "v1", "f0")], [("comp", "OpAddDef", [("addend", "v2", "f1")])]))
    T.append(_t("1.OpAff", INT, [("factor", "v1", "f0")], [("comp", "OpAff", [("factor", "v2", "f1")])]))
    T.append(_t("1.OpTwo", INT, [("a", "v1", "f0"), ("b", "v3", "f2")], [("comp", "OpTwo", [("a", "v2", "f1"), ("b", "v4", "f3")])]))
    T.append(_t("1.OpCtxW", INT, [("out", "v1", "f0")], [("comp", "OpCtxW", [])]))
    T.append(_t("1.OpCtxBad", INT, [("b", "v1", "f0")], [("comp", "OpCtxBad", [])]))
    T.append(_t("1.OpBoom", INT, [("fire", "v1", "f0")], [("comp", "OpBoom", [("fire", "v2", "f1")])]))
    T.append(_t("1.OpAdd.subint", ("subint", "v0"), [], [("comp", "OpAdd", [("addend", "v2", None)])]))
    T.append(_t("1.OpAdd.other", ("other", "v0"), [], [("comp", "OpAdd", [("addend", "v2", None)])]))
    T.append(_t("1.OpAdd.none", NONE, [], [("comp", "OpAdd", [("addend", "v2", None)])]))
    T.append(_t("1.OpAdd.coll", COLL, [], [("comp", "OpAdd", [("addend", "v2", None)])]))
    T.append(_t("1.OpSum", COLL, [], [("comp", "OpSum", [])]))
    T.append(_t("1.OpSum.int", INT, [], [("comp", "OpSum", [])]))
    T.append(_t("1.OpMkColl", INT, [], [("comp", "OpMkColl", [])]))
    T.append(_t("1.PrVal", INT, [("out", "v1", "f0")], [("comp", "PrVal", [], "out")]))
    T.append(_t("1.PrParam", INT, [("offset", "v1", "f0")], [("comp", "PrParam", [("offset", "v2", "f1")], "out")]))
    T.append(_t("1.PrReq", INT, [("offset", "v1", "f0")], [("comp", "PrReq", [("offset", "v2", "f1")], "offset")]))
    T.append(_t("1.Snk", INT, [("tag", "v1", "f0")], [("comp", "Snk", [("tag", "v2", "f1")])]))
    T.append(_t("1.PSnk", INT, [("tag", "v1", "f0")], [("comp", "PSnk", [("tag", "v2", "f1")])]))
    T.append(_t("1.CpSum", INT, [("a", "v1", "f0"), ("b", "v3", "f2")], [("comp", "CpSum", [("a", "v2", "f1"), ("b", "v4", "f3")])]))
    T.append(_t("1.CpBad", INT, [("a", "v1", "f0")], [("comp", "CpBad", [])]))
    T.append(_t("1.rename", INT, [("a", "v1", "f0"), ("b", "v2", "f1")], [("rename", "a", "b")]))
    T.append(_t("1.delete", INT, [("a", "v1", "f0"), ("b", "v2", "f1")], [("delete", "a")]))
    T.append(_t("1.template", INT, [("a", "s0", "f0"), ("b", "s1", "f1")], [("template", ["a", "b"], "c")]))
    T.append(_t("1.slice.OpAdd", COLL, [("addend", "v1", "f0")], [("slice", "OpAdd", [("addend", "v2", "f1")])]))
    T.append(_t("1.slice.OpAddDef", COLL, [("addend", "v1", "f0")], [("slice", "OpAddDef", [("addend", "v2", "f1")])]))
    T.append(_t("1.slice.PrParam", COLL, [("offset", "v1", "f0")], [("slice", "PrParam", [("offset", "v2", "f1")], "out")]))
    T.append(_t("1.slice.OpAdd.int", INT, [], [("slice", "OpAdd", [("addend", "v2", None)])]))
    return T


def curated() -> List[Dict[str, Any]]:
    """Interaction templates (length 2-5) named in the property's why_tests_cant."""
    T = []
    # probe key consumed later as a parameter, default overridden by a probe-written key
    T.append(_t("c.probe-feeds-param", INT, [("addend", "v1", "f0"), ("factor", "v2", "f1")],
                [("comp", "OpAdd", [("addend", "v3", "f2")]), ("comp", "PrVal", [], "factor"), ("comp", "OpAff", []), ("comp", "OpAddDef", [])]))
    T.append(_t("c.probe-overrides-default", INT, [("addend", "v1", "f0")], [("comp", "PrParam", [("offset", "v2", "f1")], "addend"), ("comp", "OpAddDef", [])]))
    T.append(_t("c.use-before-create", INT, [("addend", "v1", "f0")], [("comp", "OpAdd", []), ("comp", "PrVal", [], "addend")]))
    # default overridden by a context key under a slicer
    T.append(_t("c.slicer-default-ctx", INT, [("addend", "v1", "f0")], [("comp", "OpMkColl", []), ("slice", "OpAddDef", [("addend", "v2", "f1")]), ("comp", "OpSum", [])]))
    T.append(_t("c.slicer-probe", INT, [("offset", "v1", "f0")], [("comp", "OpMkColl", []), ("slice", "PrParam", [], "out"), ("comp", "OpSum", [])]))
    # rename-after-delete and friends
    T.append(_t("c.delete-then-rename", INT, [("a", "v1", "f0"), ("b", "v2", "f1")], [("delete", "a"), ("rename", "b", "a"), ("comp", "OpTwo", [])]))
    T.append(_t("c.rename-then-require-old", INT, [("a", "v1", "f0")], [("rename", "a", "b"), ("comp", "OpTwo", [("b", "v3", "f1")])]))
    T.append(_t("c.delete-then-require", INT, [("addend", "v1", "f0")], [("delete", "addend"), ("comp", "OpAdd", [("addend", "v2", "f1")])]))
    T.append(_t("c.delete-then-default", INT, [("addend", "v1", "f0")], [("delete", "addend"), ("comp", "OpAddDef", [])]))
    T.append(_t("c.rename-onto-existing", INT, [("a", "v1", "f0"), ("b", "v2", "f1")], [("rename", "a", "b"), ("comp", "CpSum", [("a", "v3", "f2")])]))
    # same name in two channels at once
    T.append(_t("c.both-channels", INT, [("a", "v1", None), ("b", "v2", None)], [("comp", "OpTwo", [("a", "v3", "f0"), ("b", "v4", "f1")]), ("comp", "CpSum", [("b", "v5", "f2")])]))
    # context-writing operation consumed downstream; undeclared write stops the run
    T.append(_t("c.ctxw-feeds", INT, [("out", "v1", "f0")], [("comp", "OpCtxW", []), ("rename", "out", "addend"), ("comp", "OpAdd", [])]))
    T.append(_t("c.bad-write-stops", INT, [], [("comp", "OpAddDef", []), ("comp", "OpCtxBad", []), ("comp", "Snk", [])]))
    T.append(_t("c.cpbad-stops", INT, [("a", "v1", "f0")], [("comp", "CpBad", []), ("comp", "Snk", [])]))
    T.append(_t("c.boom-stops", INT, [("fire", "v1", "f0")], [("comp", "OpAddDef", []), ("comp", "OpBoom", []), ("comp", "Snk", [("tag", "v2", None)])]))
    # type changes across context-only nodes; subclass passes the gate
    T.append(_t("c.type-change-ctx-only", INT, [("a", "v1", "f0")], [("comp", "OpToOther", []), ("delete", "a"), ("comp", "OpAddDef", [])]))
    T.append(_t("c.subclass-ok", INT, [], [("comp", "OpSub", []), ("comp", "CpSum", [("a", "v1", None)]), ("comp", "OpAddDef", [])]))
    # one key written by two nodes (the later value is the one consumers see); re-created after a delete
    T.append(_t("c.key-created-twice", INT, [("a", "v1", "f0")], [("comp", "OpCtxW", []), ("comp", "CpSum", [("a", "v2", "f1")]), ("rename", "out", "factor"), ("comp", "OpAff", [])]))
    T.append(_t("c.key-recreated-after-delete", INT, [("a", "v1", "f0")], [("comp", "CpSum", [("a", "v2", "f1")]), ("delete", "out"), ("comp", "OpCtxW", []), ("rename", "out", "addend"), ("comp", "OpAdd", [])]))
    T.append(_t("c.probe-then-op-same-key", INT, [], [("comp", "PrVal", [], "out"), ("comp", "OpCtxW", []), ("rename", "out", "addend"), ("comp", "OpAdd", [])]))
    # a node that requires a key an earlier node deleted AND re-creates that very key itself
    T.append(_t("c.delete-then-self-recreate-probe", INT, [("offset", "v1", "f0")], [("delete", "offset"), ("comp", "PrReq", [], "offset"), ("comp", "PrParam", [], "out")]))
    T.append(_t("c.delete-then-self-recreate-template", INT, [("a", "s0", "f0"), ("b", "s1", "f1")], [("delete", "a"), ("template", ["a", "b"], "a"), ("comp", "OpAddDef", [])]))
    # a slicer over a context-writing operation: the key written for the last element is what later nodes read
    T.append(_t("c.slice-ctxw-feeds", COLL, [("out", "v1", "f0")], [("slice", "OpCtxW", []), ("rename", "out", "addend"), ("slice", "OpAdd", [])]))
    # an EMPTY collection is data like any other: a source fed with it must be rejected, a slicer maps it to an empty one
    T.append(_t("c.empty-coll-into-source", ("coll", []), [], [("comp", "SrcD", []), ("comp", "OpAddDef", [])]))
    T.append(_t("c.empty-coll-sliced-then-source", ("coll", []), [("addend", "v1", "f0")], [("slice", "OpAdd", [("addend", "v2", "f1")]), ("comp", "SrcD", []), ("comp", "OpAddDef", [])]))
    T.append(_t("c.empty-coll-sum", ("coll", []), [], [("comp", "OpSum", []), ("comp", "OpAddDef", [])]))
    # the subclass is lost when an operation declared on the base type sits in between (also across a context-only node)
    T.append(_t("c.sub-decl-chain", INT, [], [("comp", "OpSubDecl", []), ("comp", "OpNeedSub", []), ("comp", "OpAddDef", [])]))
    T.append(_t("c.sub-lost-through-base-op", INT, [("addend", "v1", "f0")], [("comp", "OpSubDecl", []), ("comp", "OpAddDef", []), ("comp", "OpNeedSub", [])]))
    T.append(_t("c.sub-lost-ctx-only", INT, [("a", "v1", "f0")], [("comp", "OpSubDecl", []), ("comp", "OpAddDef", []), ("delete", "a"), ("comp", "OpNeedSub", [])]))
    T.append(_t("c.sub-kept-ctx-only", INT, [("a", "v1", "f0")], [("comp", "OpSubDecl", []), ("delete", "a"), ("comp", "OpNeedSub", [])]))
    # payload source colliding with the initial context; source then ops then sink
    T.append(_t("c.psrc-chain", NONE, [("a", "v1", "f0"), ("value", "v2", "f1")], [("comp", "PSrc", [("value", "v3", "f2")]), ("comp", "OpTwo", []), ("comp", "Snk", [])]))
    T.append(_t("c.src-template-sink", NONE, [("b", "s0", "f0"), ("d", "s1", "f1")], [("comp", "SrcD", []), ("comp", "PrVal", [], "a"), ("rename", "d", "a"), ("template", ["a", "b"], "c"), ("comp", "PSnk", [])]))
    T.append(_t("c.source-midway", INT, [], [("comp", "OpAddDef", []), ("comp", "SrcD", []), ("comp", "OpAddDef", [])]))
    T.append(_t("c.probe-chain", INT, [("offset", "v1", "f0")], [("comp", "PrReq", [], "offset"), ("comp", "PrReq", [], "offset"), ("comp", "PrParam", [], "out")]))
    T.append(_t("c.cp-feeds-op", INT, [("a", "v1", "f0"), ("b", "v2", "f1")], [("comp", "CpSum", []), ("rename", "out", "factor"), ("comp", "OpAff", [])]))
    T.append(_t("c.template-missing", INT, [("a", "s0", "f0")], [("template", ["a", "b"], "c"), ("comp", "OpAddDef", [])]))
    T.append(_t("c.delete-twice", INT, [("a", "v1", "f0")], [("delete", "a"), ("delete", "a"), ("comp", "OpAddDef", [])]))
    return T


# node forms for generated templates: name -> (node builder(alloc), keys it may read from context)
def _forms():
    F = {}

    def comp(name, params, ckey=None):
        def mk(alloc):
            cfg = [(p, alloc.v(), alloc.f()) for p in params]
            return ("comp", name, cfg) + ((ckey,) if ckey else ())

        return mk, list(params)

    F["OpAdd"] = comp("OpAdd", ["addend"])
    F["OpAddDef"] = comp("OpAddDef", ["addend"])
    F["OpAff"] = comp("OpAff", ["factor"])
    F["OpTwo"] = comp("OpTwo", ["a"])
    F["OpCtxW"] = comp("OpCtxW", [])
    F["PrVal>addend"] = comp("PrVal", [], "addend")
    F["PrVal>factor"] = comp("PrVal", [], "factor")
    F["PrParam>a"] = comp("PrParam", ["offset"], "a")
    F["CpSum"] = comp("CpSum", ["a"])
    F["Snk"] = comp("Snk", [])
    F["OpSub"] = comp("OpSub", [])
    F["OpToOther"] = comp("OpToOther", [])
    F["OpBoom"] = comp("OpBoom", ["fire"])
    F["OpCtxBad"] = comp("OpCtxBad", [])
    F["rename:addend>factor"] = ((lambda alloc: ("rename", "addend", "factor")), ["addend"])
    F["rename:out>addend"] = ((lambda alloc: ("rename", "out", "addend")), ["out"])
    F["rename:a>addend"] = ((lambda alloc: ("rename", "a", "addend")), ["a"])
    F["delete:addend"] = ((lambda alloc: ("delete", "addend")), ["addend"])
    F["delete:a"] = ((lambda alloc: ("delete", "a")), ["a"])
    return F


class _Alloc:
    def __init__(self):
        self.nv = 1
        self.nf = 0

    def v(self):
        s = "v%d" % self.nv
        self.nv += 1
        return s

    def f(self):
        s = "f%d" % self.nf
        self.nf += 1
        return s


def generated(length: int, names=None) -> List[Dict[str, Any]]:
    """All sequences of `length` node forms over int data; context keys the sequence may read are offered under flags."""
    forms = _forms()
    names = names or sorted(forms)
    out = []
    for combo in itertools.product(names, repeat=length):
        t = build_generated(combo)
        if t is not None:
            out.append(t)
    return out


def build_generated(combo) -> Dict[str, Any]:
    forms = _forms()
    alloc = _Alloc()
    nodes = []
    keys: List[str] = []
    for n in combo:
        mk, reads = forms[n]
        nodes.append(mk(alloc))
        for k in reads:
            if k not in keys:
                keys.append(k)
    ctx = []
    for k in keys:
        if alloc.nv >= NV or alloc.nf >= NF:
            return None
        ctx.append((k, alloc.v(), alloc.f()))
    if alloc.nv > NV or alloc.nf > NF:
        return None
    return _t("g." + "|".join(combo), INT, ctx, nodes)


def drawn(seed: int, count: int, lengths=(3, 4)) -> List[Dict[str, Any]]:
    rnd = random.Random(seed)
    names = sorted(_forms())
    out = []
    guard = 0
    while len(out) < count and guard < count * 20:
        guard += 1
        combo = tuple(rnd.choice(names) for _ in range(rnd.choice(lengths)))
        t = build_generated(combo)
        if t is not None:
            out.append(t)
    return out
