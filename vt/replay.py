"""Replay of a solver counterexample against the unpatched real code (fresh process, no CrossHair, no stubs)."""
from __future__ import annotations

import importlib
import json
import sys
import traceback


def main() -> int:
    rp = json.loads(sys.stdin.read())
    mod = importlib.import_module("vt.props." + rp["prop"])
    obs = {o.oid: o for o in mod.obligations(rp.get("tier", "quick"))}
    ob = obs.get(rp["oid"])
    if ob is None:
        obs = {o.oid: o for o in mod.obligations("thorough")}
        ob = obs[rp["oid"]]
    param = ob.params[rp["pidx"]]
    try:
        out = ob.replay(param, rp["args"])
    except BaseException as e:  # noqa: BLE001
        out = {"reproduced": False, "fingerprint": "", "detail": "replay crashed: %r\n%s" % (e, traceback.format_exc()[-1500:])}
    print(json.dumps(out, default=str))
    return 0


if __name__ == "__main__":
    sys.exit(main())
