"""C01 -- pipeline execution matches the documented dual-channel node semantics (Engine A).

U1  resolve_runtime_value: presence in config / context / defaults symbolic (3 flags) + symbolic values.
U2  _ValidatingContextObserver.update/delete and DataOperation._notify_context_update: key chosen by a
    solver variable from the alphabet, declared sets as symbolic subsets.
U3  _DataNode._process type gate over a type lattice x expected type.
P1  differential run per shape template: real Pipeline(nodes).process(Payload(data, ctx)) vs vt/refmodel.py,
    all values and placement/presence flags symbolic; compares data, context, the component log (who ran, with
    which parameter values) and, for prescribed failures, exception class and that no later node ran.
"""
from __future__ import annotations

import os
from typing import Optional, Any, Dict, List

from vt import refmodel, shapes
from vt.runner import Fail, Ob

LEVEL = "model_checking"
STUBS = ("time", "canon-json", "serialize_json_safe", "stable_equal", "str", "semantic_id", "sha256_json", "env_pins", "datetime")
ASSUMPTIONS = [
    "component library = harness components built on public base classes with int payloads (vt/lib.py); the repo's float example processors are not run",
    "reference model vt/refmodel.py encodes the documented semantics (quoted in its docstring)",
    "CrossHair 0.0.110 + z3 5.1 models of int/bool/list/dict; stubs listed under coverage.stubs",
]
OUTSIDE = ["pipelines longer than the stated template lengths (property asks 1..8; quick: 1, all 2, curated 2..5; thorough: all 3 + seeded draw of 4..5)", "float arithmetic of example processors", "parameter sweeps inside pipelines are covered by C03-P1/P2"]


def setup_symbolic() -> None:
    from vt import lib, stubs

    stubs.apply(STUBS)
    lib.register()


# --------------------------------------------------------------------------------------------- U1
def _same(a, b) -> bool:
    if a is None or b is None:
        return a is None and b is None
    return bool(a == b)


def _u1(in_cfg: bool, in_ctx: bool, has_default: bool, v_cfg: Optional[int], v_ctx: Optional[int]):
    """values range over int and None: a channel that HOLDS the name with value None still wins over later channels."""
    from semantiva.context_processors import ContextType
    from semantiva.pipeline._param_resolution import resolve_runtime_value
    from vt import lib

    cls = lib.OpAddDef if has_default else lib.OpAdd
    cfg = {"addend": v_cfg} if in_cfg else {}
    ctx = ContextType({"addend": v_ctx, "zz": 1} if in_ctx else {"zz": 1})
    try:
        got = resolve_runtime_value(name="addend", processor_cls=cls, processor_config=cfg, context=ctx)
    except KeyError:
        if in_cfg or in_ctx or has_default:
            return Fail("C01.U1:keyerror-though-resolvable", "KeyError although a channel holds the value")
        return True
    if in_cfg:
        return True if _same(got, v_cfg) else Fail("C01.U1:config-not-first", "config value not returned")
    if in_ctx:
        return True if _same(got, v_ctx) else Fail("C01.U1:context-not-second", "context value not returned (got %r)" % (got,))
    if has_default:
        return True if _same(got, 7) else Fail("C01.U1:default-wrong", "default not returned")
    return Fail("C01.U1:no-keyerror", "unresolvable parameter did not raise")


# --------------------------------------------------------------------------------------------- U4
# key names around what the shorthand factories do to a name (dots become underscores in generated identifiers,
# rename classes are called Rename_<src>_to_<dst>)
_DEL_NAMES = ("a", "a.b", "a_b", "a.b.c", "a_b.c", "c")
_REN_SRC = ("a", "a_to_b", "a.b", "a_b")
_REN_DST = ("b_to_c", "c", "b")


def _make_u4(param):
    kind, fi = param

    def u4(j: int, p: int, q: int, v1: int, v2: int):
        return _u4(kind, fi, j, p, q, v1, v2)

    return u4


def _u4(kind: int, i: int, j: int, p: int, q: int, v1: int, v2: int):
    """two shorthands resolved one after the other (names picked by the solver from tables of names that are distinct
    as keys but close as identifiers): the SECOND one must act on ITS OWN keys -- a shorthand's meaning is a function
    of its text, not of what was resolved before."""
    from semantiva.registry.resolve import resolve_symbol
    from vt import lib
    from vt.engine import assume

    if kind == 0:
        n = len(_DEL_NAMES)
        assume(0 <= j < n and p == 0 and q == 0)
        cj = next(x for x in range(n) if j == x)
        k1, k2 = _DEL_NAMES[i], _DEL_NAMES[cj]
        assume(k1 != k2)
        first, second = "delete:%s" % k1, "delete:%s" % k2
        exp_created, exp_suppressed, d2 = [], [k2], None
    else:
        ns, nd = len(_REN_SRC), len(_REN_DST)
        assume(0 <= j < ns and 0 <= p < nd and 0 <= q < nd)
        cj, cp, cq = next(x for x in range(ns) if j == x), next(x for x in range(nd) if p == x), next(x for x in range(nd) if q == x)
        k1, d1, k2, d2 = _REN_SRC[i], _REN_DST[cp], _REN_SRC[cj], _REN_DST[cq]
        assume((k1, d1) != (k2, d2))
        first, second = "rename:%s:%s" % (k1, d1), "rename:%s:%s" % (k2, d2)
        exp_created, exp_suppressed = [d2], [k2]
    resolve_symbol(first)
    cls = resolve_symbol(second)
    if list(cls.get_created_keys()) != exp_created or list(cls.get_suppressed_keys()) != exp_suppressed:
        return Fail("C01.U4:shorthand-depends-on-history", "%r resolved after %r creates %r / suppresses %r" % (second, first, list(cls.get_created_keys()), list(cls.get_suppressed_keys())))
    ctx = {k2: v2, "zz": v1}
    try:
        _d, out = lib.run_pipeline([{"processor": second}], lib.IntData(1), ctx)
    except Exception as e:  # noqa: BLE001
        return Fail("C01.U4:shorthand-run-fails", "%r (resolved after %r) on a context holding %r raised %r" % (second, first, k2, e))
    if k2 in out or (kind == 1 and not (out.get(d2) == v2)):
        return Fail("C01.U4:shorthand-acts-on-other-keys", "%r (resolved after %r) left context %r" % (second, first, sorted(out)))
    return True


def _replay_simple(fn):
    def rp(_param, a):
        v = fn(**a)
        if v is True:
            return {"reproduced": False, "fingerprint": "", "detail": "real code behaves as documented on the concrete input"}
        return {"reproduced": True, "fingerprint": v.fingerprint, "detail": v.detail}

    return rp


# --------------------------------------------------------------------------------------------- U2
_KEYS = ("a", "b", "out")


def _u2(k: int, mask_upd: int, mask_del: int, do_delete: bool, present: bool, v: int):
    from semantiva.context_processors import ContextType
    from semantiva.context_processors.context_observer import _ValidatingContextObserver
    from vt import lib
    from vt.engine import assume

    assume(0 <= k < 3 and 0 <= mask_upd < 8 and 0 <= mask_del < 8)
    key = _KEYS[k]
    allowed_u = [_KEYS[i] for i in range(3) if (mask_upd >> i) & 1]
    allowed_d = [_KEYS[i] for i in range(3) if (mask_del >> i) & 1]
    base = {"a": 1, "b": 2, "out": 4}
    if not present:
        del base[key]
    ctx = ContextType(dict(base))
    obs = _ValidatingContextObserver(context_keys=allowed_u, suppressed_keys=allowed_d, logger=lib.QUIET)
    obs.observer_context = ctx
    try:
        if do_delete:
            obs.delete(key)
        else:
            obs.update(key, v)
    except KeyError:
        after = ctx.to_dict()
        if after != base:
            return Fail("C01.U2:mutated-on-reject", "context changed although the operation was rejected")
        if do_delete:
            return True if (key not in allowed_d or not present) else Fail("C01.U2:declared-delete-rejected", "declared deletion rejected")
        return True if key not in allowed_u else Fail("C01.U2:declared-update-rejected", "declared update rejected")
    after = ctx.to_dict()
    exp = dict(base)
    if do_delete:
        if key not in allowed_d:
            return Fail("C01.U2:undeclared-delete-accepted", "deleted undeclared key %s" % key)
        exp.pop(key, None)
    else:
        if key not in allowed_u:
            return Fail("C01.U2:undeclared-update-accepted", "wrote undeclared key %s" % key)
        exp[key] = v
    return True if after == exp else Fail("C01.U2:touched-other-keys", "other keys changed")


def _u2b(declared: bool, v: int):
    """DataOperation._notify_context_update: accepted iff the key is in context_keys()."""
    from semantiva.context_processors import ContextType
    from semantiva.context_processors.context_observer import _ContextObserver
    from vt import lib

    obs = _ContextObserver(lib.QUIET)
    obs.observer_context = ContextType({"b": 0})
    op = lib.OpCtxW(obs, lib.QUIET)
    key = "out" if declared else "b"
    try:
        op._notify_context_update(key, v)
    except KeyError:
        return True if not declared else Fail("C01.U2b:declared-rejected", "declared key rejected")
    if not declared:
        return Fail("C01.U2b:undeclared-accepted", "undeclared key written")
    return True if obs.observer_context.to_dict() == {"b": 0, "out": v} else Fail("C01.U2b:wrong-write", "wrong context after write")


# --------------------------------------------------------------------------------------------- U3
def _u3(t: int, e: int, v: int):
    from semantiva.data_types import NoDataType
    from semantiva.pipeline import Payload
    from semantiva.context_processors import ContextType
    from semantiva.pipeline.nodes._pipeline_node_factory import _pipeline_node_factory
    from vt import lib
    from vt.engine import assume

    assume(0 <= t < 5 and 0 <= e < 3)
    data = [lib.IntData(v), lib.SubIntData(v), lib.OtherData(v), lib.IntColl.from_list([lib.IntData(v)]), NoDataType()][t]
    proc = [lib.OpSub, lib.OpSum, lib.SrcD][e]  # expects IntData / IntColl / NoDataType
    ok_expected = [(0, 1), (3,), (4,)][e]
    node = _pipeline_node_factory({"processor": proc, "parameters": {}}, lib.QUIET)
    lib.reset_log()
    try:
        node.process(Payload(data, ContextType({})))
    except TypeError:
        if t in ok_expected:
            return Fail("C01.U3:gate-rejects-compatible", "TypeError for a compatible payload")
        return True if not lib.LOG else Fail("C01.U3:processor-ran-before-gate", "processor ran although the gate raised")
    if t not in ok_expected:
        return Fail("C01.U3:gate-accepts-incompatible", "incompatible payload type %d accepted by node expecting %d" % (t, e))
    return True


# --------------------------------------------------------------------------------------------- P1
def run_template(T: Dict[str, Any], V: List[Any], F: List[Any], trace=None, S=None):
    """Shared by C01/C02/C07/C10: run the real pipeline and the reference on one instantiation.
    -> (verdict, info)"""
    from vt import lib

    ref_nodes, data0, ctx0 = shapes.instantiate(T, V, F, S)
    exp = refmodel.run(ref_nodes, data0, ctx0)
    real_nodes, real_data = shapes.to_real(ref_nodes, data0)
    lib.reset_log()
    name = T["name"]
    try:
        d, c = lib.run_pipeline(real_nodes, real_data, ctx0, trace=trace)
    except Exception as e:  # noqa: BLE001 (CrossHair control flow is BaseException)
        log = list(lib.LOG)
        if exp["outcome"] != "fail":
            return Fail("C01.P1:%s:raised-unexpected:%s" % (name, type(e).__name__), "run raised %s: %s; reference says it succeeds" % (type(e).__name__, str(e)[:200])), exp
        if type(e).__name__ not in exp["exc_names"]:
            return Fail("C01.P1:%s:wrong-exception:%s" % (name, type(e).__name__), "raised %s, prescribed %s (%s)" % (type(e).__name__, exp["exc_names"], exp["why"])), exp
        if not (log == exp["log"]):
            return Fail("C01.P1:%s:log-on-failure" % name, "components that ran before the failure differ: real %r vs reference %r" % (log, exp["log"])), exp
        return True, exp
    log = list(lib.LOG)
    if exp["outcome"] == "fail":
        return Fail("C01.P1:%s:should-have-raised" % name, "run returned; reference prescribes %s at node %d (%s)" % (exp["exc_names"], exp["fail_index"], exp["why"])), exp
    if not shapes.same_data(shapes.ref_data(d), exp["data"]):
        return Fail("C01.P1:%s:data" % name, "data %r, reference %r" % (shapes.ref_data(d), exp["data"])), exp
    if not (c == exp["ctx"]):
        return Fail("C01.P1:%s:context" % name, "context %r, reference %r" % (c, exp["ctx"])), exp
    if not (log == exp["log"]):
        return Fail("C01.P1:%s:log" % name, "component log %r, reference %r" % (log, exp["log"])), exp
    return True, exp


def _make_p1(T):
    use_s = shapes.uses_strings(T)

    def p1(v0: int, v1: int, v2: int, v3: int, v4: int, v5: int, v6: int, v7: int, v8: int, v9: int, v10: int, v11: int,
           f0: bool, f1: bool, f2: bool, f3: bool, f4: bool, f5: bool, f6: bool, f7: bool, f8: bool, f9: bool, f10: bool, f11: bool, s0: str, s1: str):
        V = [v0, v1, v2, v3, v4, v5, v6, v7, v8, v9, v10, v11]
        F = [f0, f1, f2, f3, f4, f5, f6, f7, f8, f9, f10, f11]
        if use_s:
            from vt.engine import assume

            assume(len(s0) <= 3 and len(s1) <= 3)
        verdict, _ = run_template(T, V, F, S=[s0, s1])
        return verdict

    p1.__name__ = "P1_" + T["name"]
    return p1


def _replay_p1(T, a):
    from vt import lib

    lib.register()
    V = [a["v%d" % i] for i in range(shapes.NV)]
    F = [a["f%d" % i] for i in range(shapes.NF)]
    verdict, exp = run_template(T, V, F, S=[a.get("s0", ""), a.get("s1", "")])
    if verdict is True:
        return {"reproduced": False, "fingerprint": "", "detail": "real run agrees with the reference on the concrete input"}
    return {"reproduced": True, "fingerprint": verdict.fingerprint, "detail": verdict.detail}


# --------------------------------------------------------------------------------------------- P3 two runs of one Pipeline
def run_twice(T: Dict[str, Any], V: List[Any], F: List[Any], S=None):
    """One Pipeline object, two runs on different payloads/contexts: the second run must be what the documented semantics
    give for ITS inputs, and what the first run returned must not change afterwards (nothing is shared between runs)."""
    from semantiva.context_processors import ContextType
    from semantiva.pipeline import Payload, Pipeline
    from vt import lib

    ref_nodes, data1, ctx1 = shapes.instantiate(T, V, F, S)
    V2 = [v + 1 for v in V]
    _n2, data2, ctx2 = shapes.instantiate(T, V2, F, S)
    exp2 = refmodel.run(ref_nodes, data2, ctx2)
    real_nodes, rdata1 = shapes.to_real(ref_nodes, data1)
    rdata2 = shapes.real_data(data2)
    name = T["name"]
    p = Pipeline(real_nodes, logger=lib.QUIET)
    first = None
    try:
        r1 = p.process(Payload(rdata1, ContextType(dict(ctx1))))
        first = (r1, dict(r1.context.to_dict()), shapes.ref_data(r1.data))
    except Exception:  # noqa: BLE001
        pass
    lib.reset_log()
    try:
        r2 = p.process(Payload(rdata2, ContextType(dict(ctx2))))
    except Exception as e:  # noqa: BLE001
        if exp2["outcome"] != "fail":
            return Fail("C01.P3:%s:second-run-raised:%s" % (name, type(e).__name__), "second run of one Pipeline raised %s: %s; on its own inputs the reference succeeds" % (type(e).__name__, str(e)[:160]))
        if type(e).__name__ not in exp2["exc_names"]:
            return Fail("C01.P3:%s:second-run-wrong-exception:%s" % (name, type(e).__name__), "second run raised %s, prescribed %s" % (type(e).__name__, exp2["exc_names"]))
        r2 = None
    if r2 is not None:
        if exp2["outcome"] == "fail":
            return Fail("C01.P3:%s:second-run-should-have-raised" % name, "second run returned; reference prescribes %s" % (exp2["exc_names"],))
        if not shapes.same_data(shapes.ref_data(r2.data), exp2["data"]):
            return Fail("C01.P3:%s:second-run-data" % name, "second run data %r, reference on its own inputs %r" % (shapes.ref_data(r2.data), exp2["data"]))
        if not (r2.context.to_dict() == exp2["ctx"]):
            return Fail("C01.P3:%s:second-run-context" % name, "second run context %r, reference on its own inputs %r" % (r2.context.to_dict(), exp2["ctx"]))
    if first is not None:
        r1, c1, d1 = first
        if not (r1.context.to_dict() == c1) or not shapes.same_data(shapes.ref_data(r1.data), d1):
            return Fail("C01.P3:%s:first-result-changed-by-second-run" % name, "what the first run returned changed while the second ran: context %r -> %r" % (c1, r1.context.to_dict()))
    return True


def _make_p3(T):
    use_s = shapes.uses_strings(T)

    def p3(v0: int, v1: int, v2: int, v3: int, v4: int, v5: int, v6: int, v7: int, v8: int, v9: int, v10: int, v11: int,
           f0: bool, f1: bool, f2: bool, f3: bool, f4: bool, f5: bool, f6: bool, f7: bool, f8: bool, f9: bool, f10: bool, f11: bool, s0: str, s1: str):
        if use_s:
            from vt.engine import assume

            assume(len(s0) <= 3 and len(s1) <= 3)
        return run_twice(T, [v0, v1, v2, v3, v4, v5, v6, v7, v8, v9, v10, v11], [f0, f1, f2, f3, f4, f5, f6, f7, f8, f9, f10, f11], S=[s0, s1])

    p3.__name__ = "P3_" + T["name"]
    return p3


def _replay_p3(T, a):
    from vt import lib

    lib.register()
    v = run_twice(T, [a["v%d" % i] for i in range(shapes.NV)], [a["f%d" % i] for i in range(shapes.NF)], S=[a.get("s0", ""), a.get("s1", "")])
    if v is True:
        return {"reproduced": False, "fingerprint": "", "detail": "second run agrees with the reference on the concrete input"}
    return {"reproduced": True, "fingerprint": v.fingerprint, "detail": v.detail}


def templates(tier: str) -> List[Dict[str, Any]]:
    T = shapes.length1() + shapes.curated() + shapes.generated(2)
    if tier == "thorough":
        T += shapes.generated(3)
        seed = int(os.environ.get("VERIF_SEED", "0") or 0)
        T += shapes.drawn(seed * 7919 + 1, 400, lengths=(4, 5))
    return T


def obligations(tier: str) -> List[Ob]:
    big = tier == "thorough"
    obs = [
        Ob("C01.U1", lambda _p: _u1, _replay_simple(_u1), budget=60, bound="3 presence flags (config/context/default) and both values symbolic", targets=["semantiva/pipeline/_param_resolution.py:resolve_runtime_value"]),
        Ob("C01.U2", lambda _p: _u2, _replay_simple(_u2), budget=240, bound="key index over a 3-key alphabet, declared update/delete sets as symbolic 3-bit masks, update vs delete, key present or not, value symbolic", targets=["semantiva/context_processors/context_observer.py:_ValidatingContextObserver.update", "semantiva/context_processors/context_observer.py:_ValidatingContextObserver.delete"]),
        Ob("C01.U2b", lambda _p: _u2b, _replay_simple(_u2b), budget=60, bound="declared/undeclared key flag, value symbolic", targets=["semantiva/data_processors/data_processors.py:DataOperation._notify_context_update"]),
        Ob("C01.U4", _make_u4, lambda p, a: _replay_simple(_u4)(p, dict(a, kind=p[0], i=p[1])), params=[(0, i) for i in range(len(_DEL_NAMES))] + [(1, i) for i in range(len(_REN_SRC))], budget=300, per_path=60, bound="delete:/rename: shorthands resolved one after the other; first name fixed per obligation, the other names picked by symbolic indices from tables of 6 (delete) / 4x3 (rename) names built around dots, underscores and '_to_'; context values symbolic", targets=["semantiva/context_processors/factory.py:_context_renamer_factory", "semantiva/context_processors/factory.py:_context_deleter_factory", "semantiva/registry/builtin_resolvers.py"]),
        Ob("C01.U3", lambda _p: _u3, _replay_simple(_u3), budget=120, bound="payload type over a 5-element lattice (IntData, subclass, unrelated, collection, NoDataType) x 3 expected types, value symbolic", targets=["semantiva/pipeline/nodes/nodes.py:_DataNode._process"]),
        Ob(
            "C01.P1",
            _make_p1,
            _replay_p1,
            params=templates(tier),
            budget=400 if not big else 900,
            per_path=60,
            bound="per shape template: payload, every configured value, every initial context value symbolic ints; every config placement and context-key presence a symbolic flag. "
            + ("Templates: all length-1 + the curated interactions (length 2-5) + ALL length-2 sequences over 19 node forms." if not big else "Templates: length-1, curated, ALL length-2 and length-3 sequences over 19 node forms, + VERIF_SEED-seeded draw of 400 length-4/5 sequences."),
            targets=["semantiva/pipeline/pipeline.py:Pipeline._process", "semantiva/execution/orchestrator/orchestrator.py:SemantivaOrchestrator.execute", "semantiva/pipeline/nodes/nodes.py:_DataNode._process_single_item_with_context", "semantiva/pipeline/_param_resolution.py:resolve_runtime_value"],
            stubs=list(STUBS),
        ),
        Ob("C01.P3", _make_p3, _replay_p3, params=shapes.length1() + shapes.curated() + (shapes.generated(2) if big else []), budget=400 if not big else 900, per_path=60,
           bound="ONE Pipeline object run twice (second run on every value + 1, same placements): second result vs the reference on its own inputs, first result unchanged afterwards; templates: length-1 + curated (thorough: + all length-2)",
           targets=["semantiva/pipeline/pipeline.py:Pipeline._process", "semantiva/execution/orchestrator/orchestrator.py:SemantivaOrchestrator.execute", "semantiva/data_processors/data_slicer_factory.py"], stubs=list(STUBS)),
    ]
    return obs


def extra_coverage(results):
    from vt import stubs

    return {"templates": len([r for r in results if r["oid"] == "C01.P1"]), "stubs": stubs.described(STUBS)}
