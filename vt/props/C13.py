"""C13 -- trace aggregation is order-independent and right for every partial trace (Engine A).

Producer invariant (assumed; C06/C07 check the producer): one pipeline_start, one pipeline_end, one SER per
(run, node), one run_space_start/end per launch attempt, timestamps non-decreasing in emission order.

O1  commutation with polling: a pool of 8 records (launch L: start/end; run R1 in L: start, 2 SERs, end; run
    R2 in L: start, end) with symbolic timestamps (positive ints: the aggregator only uses <, > and truthiness)
    and symbolic SER statuses.  Pre-state = any subset of the pool (symbolic mask) ingested, optionally
    finalised; then two further records r1, r2 (one obligation per unordered pair) are ingested in both orders,
    each order optionally polling finalize_all() in between (symbolic flags).  The complete internal state and
    the verdicts of finalize_all() must coincide.  Adjacent transpositions generate all permutations and the
    state equality is a congruence, so this covers every ingestion order and every k-way interleaving.
O2  finalising twice gives the same verdict (asserted in every O1 leaf).
O3  prefixes of traces the REAL runtime produced (single runs of 1..3 nodes, succeeding or failing at a
    symbolic node; a 2-run launch through the real CLI): prefix length symbolic; verdict must be the documented
    one: complete iff both lifecycle edges seen, else partial naming exactly the missing edge, missing_nodes =
    canonical nodes without SER, no orphans, launch roll-up = counts of its runs' verdicts.
"""
from __future__ import annotations

import dataclasses
import itertools
import json
import os
from typing import Any, Dict, List

from vt.props import C01, C06
from vt.runner import Fail, Ob

LEVEL = "model_checking"
ASSUMPTIONS = ["producer invariant (see docstring) incl. timestamps non-decreasing in emission order (what C07 establishes for the producer); malformed records are outside", "timestamps as positive integers (any total order)", "CrossHair 0.0.110 + z3 5.1 models of int/bool/str/dict"]
OUTSIDE = ["records violating the producer invariant (two SERs for one node, two pipeline_start)", "runs with more than 3 nodes / launches of more than 2 runs in O3"]
STATUSES = ("succeeded", "error", "running")


def setup_symbolic() -> None:
    from vt import cliharness, lib, stubs

    stubs.apply(("time", "str", "env_pins", "datetime"))
    lib.register()
    cliharness.install()


def _pool(ts: List[int], st: List[int]):
    spec = {"version": 1, "nodes": [{"node_uuid": "n1"}, {"node_uuid": "n2"}], "edges": []}
    return [
        {"record_type": "run_space_start", "run_id": "L", "run_space_launch_id": "L", "run_space_attempt": 1, "run_space_planned_run_count": 2, "timestamp": ts[0]},
        {"record_type": "pipeline_start", "run_id": "R1", "pipeline_id": "P", "pipeline_spec_canonical": spec, "meta": {}, "timestamp": ts[1], "run_space_launch_id": "L", "run_space_attempt": 1},
        {"record_type": "ser", "identity": {"run_id": "R1", "pipeline_id": "P", "node_id": "n1"}, "status": STATUSES[st[0]], "timing": {"started_at": ts[2], "finished_at": ts[3]}, "seq": 1},
        {"record_type": "ser", "identity": {"run_id": "R1", "pipeline_id": "P", "node_id": "n2"}, "status": STATUSES[st[1]], "timing": {"started_at": ts[3], "finished_at": ts[4]}, "timestamp": ts[4], "seq": 2},
        {"record_type": "pipeline_end", "run_id": "R1", "summary": {"status": "ok"}, "timestamp": ts[5]},
        {"record_type": "run_space_end", "run_id": "L", "run_space_launch_id": "L", "run_space_attempt": 1, "timestamp": ts[7]},
        {"record_type": "pipeline_start", "run_id": "R2", "pipeline_id": "P", "pipeline_spec_canonical": spec, "meta": {}, "timestamp": ts[6], "run_space_launch_id": "L", "run_space_attempt": 1},
        {"record_type": "pipeline_end", "run_id": "R2", "summary": {"status": "error"}, "timestamp": ts[7]},
    ]


def _pool2(ts: List[int], st: List[int]):
    """two attempts of one launch, one run each (same launch id, attempts 1 and 2), written by two drivers: the per-driver
    sequence numbers restart, so records of the two attempts share (record_type, run_id, seq)."""
    spec = {"version": 1, "nodes": [{"node_uuid": "n1"}], "edges": []}
    return [
        {"record_type": "run_space_start", "run_id": "L", "run_space_launch_id": "L", "run_space_attempt": 1, "run_space_planned_run_count": 1, "timestamp": ts[0], "seq": 1},
        {"record_type": "pipeline_start", "run_id": "R1", "pipeline_id": "P", "pipeline_spec_canonical": spec, "meta": {}, "timestamp": ts[1], "run_space_launch_id": "L", "run_space_attempt": 1, "seq": 2},
        {"record_type": "run_space_end", "run_id": "L", "run_space_launch_id": "L", "run_space_attempt": 1, "timestamp": ts[2], "seq": 4},
        {"record_type": "run_space_start", "run_id": "L", "run_space_launch_id": "L", "run_space_attempt": 2, "run_space_planned_run_count": 1, "timestamp": ts[3], "seq": 1},
        {"record_type": "pipeline_start", "run_id": "R2", "pipeline_id": "P", "pipeline_spec_canonical": spec, "meta": {}, "timestamp": ts[4], "run_space_launch_id": "L", "run_space_attempt": 2, "seq": 2},
        {"record_type": "run_space_end", "run_id": "L", "run_space_launch_id": "L", "run_space_attempt": 2, "timestamp": ts[5], "seq": 4},
        {"record_type": "pipeline_end", "run_id": "R1", "summary": {"status": "ok"}, "timestamp": ts[6], "seq": 3},
        {"record_type": "ser", "identity": {"run_id": "R2", "pipeline_id": "P", "node_id": "n1"}, "status": STATUSES[st[0]], "timing": {"started_at": ts[6], "finished_at": ts[7]}, "timestamp": ts[7], "seq": 1},
    ]


POOLS = {"2runs": _pool, "2attempts": _pool2}


def _state(agg):
    runs = {k: dataclasses.asdict(v) for k, v in agg._runs.items()}
    launches = {k: dataclasses.asdict(v) for k, v in agg._launches.items()}
    for l in launches.values():
        l["pipelines"] = sorted(l["pipelines"])
    return runs, launches


def _verdicts(agg):
    rr, ll = agg.finalize_all()
    return ({r.run_id: dataclasses.asdict(r) for r in rr}, {(l.run_space_launch_id, l.run_space_attempt): dataclasses.asdict(l) for l in ll})


TS_VARIANTS = {"increasing": [1, 2, 3, 4, 5, 6, 7, 8], "all-equal": [3, 3, 3, 3, 3, 3, 3, 3], "ties": [1, 1, 2, 2, 2, 3, 3, 3],
               "ser-end-tie": [1, 2, 3, 4, 5, 5, 6, 7]}  # the last SER finishes in the same tick as pipeline_end is written


def _make_o1(param):
    """param = (i1, i2, ts_variant) -> selectors symbolic, leaf executed natively;
       param = (i1, i2, None)       -> timestamps symbolic too (thorough; restricted pre-state)."""
    i1, i2, tsv = param[:3]
    full = len(param) > 3 and param[3]
    pool_name = param[4] if len(param) > 4 else "2runs"
    if tsv is not None:

        def o1(m0: bool, m1: bool, m2: bool, m3: bool, m4: bool, m5: bool, m6: bool, m7: bool, s0: int, s1: int, poll_pre: bool, poll_a: bool, poll_b: bool):
            from crosshair.tracers import NoTracing
            from vt.engine import assume

            ms = [m0, m1, m2, m3, m4, m5, m6, m7]
            assume(0 <= s0 <= 2 and 0 <= s1 <= (2 if full else 0))
            assume(not ms[i1] and not ms[i2])  # canonical: the pair itself is not part of the pre-state
            cm = 0
            for k in range(8):
                if ms[k]:
                    cm |= 1 << k
            c0 = next(i for i in range(3) if s0 == i)
            c1 = next(i for i in range(3) if s1 == i)
            pp, pa, pb = (True if poll_pre else False), (True if poll_a else False), (True if poll_b else False)
            with NoTracing():
                return _o1_body(i1, i2, cm, TS_VARIANTS[tsv], [c0, c1], pp, pa, pb, pool_name)

        return o1

    def o1s(mask: int, t0: int, t1: int, t2: int, t3: int, t4: int, t5: int, s0: int, poll_pre: bool, poll_a: bool, poll_b: bool):
        from vt.engine import assume

        assume(0 <= mask < 32 and 0 <= s0 <= 2)
        assume((mask >> i1) & 1 == 0 and (mask >> i2) & 1 == 0)
        assume(1 <= t0 <= t1 <= t2 <= t3 <= t4 <= t5 <= 3)
        return _o1_body(i1, i2, mask, [t0, t1, t2, t3, t4, t5, t5, t5], [s0, 0], poll_pre, poll_a, poll_b)

    return o1s


def _o1_body(i1, i2, mask, ts, st, poll_pre, poll_a, poll_b, pool_name="2runs"):
    from semantiva.trace.aggregation.aggregator import TraceAggregator

    pool = POOLS[pool_name](ts, st)
    pre = [r for i, r in enumerate(pool) if i not in (i1, i2) and (mask >> i) & 1]
    outs = []
    for order, poll in (((i1, i2), poll_a), ((i2, i1), poll_b)):
        agg = TraceAggregator()
        agg.ingest_many([json.loads(json.dumps(r)) if False else _copy(r) for r in pre])
        if poll_pre:
            agg.finalize_all()
        agg.ingest(_copy(pool[order[0]]))
        if poll:
            agg.finalize_all()
        agg.ingest(_copy(pool[order[1]]))
        v1 = _verdicts(agg)
        v2 = _verdicts(agg)
        if not (v1 == v2):
            return Fail("C13.O2:finalize-not-idempotent", "finalize_all() twice gives different verdicts")
        outs.append((v1, _state(agg)))
    (va, sa), (vb, sb) = outs
    kinds = "%s/%s" % (pool[i1]["record_type"], pool[i2]["record_type"])
    if not (va == vb):
        return Fail("C13.O1:verdict-depends-on-order:%s" % kinds, "verdicts differ between the two ingestion orders of %s (polling: %r/%r)" % (kinds, poll_a, poll_b))
    if not poll_pre and not poll_a and not poll_b and not (sa == sb):
        # pure ingestion must commute on the whole state (congruence: makes the pairwise result compose to any order)
        return Fail("C13.O1:state-depends-on-order:%s" % kinds, "aggregator state differs between the two ingestion orders of %s" % kinds)
    return True


def _copy(r):
    if isinstance(r, dict):
        return {k: _copy(v) for k, v in r.items()}
    if isinstance(r, list):
        return [_copy(v) for v in r]
    return r


def _replay_o1(param, a):
    i1, i2, tsv = param[:3]
    if tsv is not None:
        mask = sum((1 << k) for k in range(8) if a["m%d" % k])
        v = _o1_body(i1, i2, mask, TS_VARIANTS[tsv], [a["s0"], a["s1"]], a["poll_pre"], a["poll_a"], a["poll_b"], param[4] if len(param) > 4 else "2runs")
    else:
        v = _o1_body(i1, i2, a["mask"], [a["t0"], a["t1"], a["t2"], a["t3"], a["t4"], a["t5"], a["t5"], a["t5"]], [a["s0"], 0], a["poll_pre"], a["poll_a"], a["poll_b"])
    return _wrap(v)


def _wrap(v):
    if v is True:
        return {"reproduced": False, "fingerprint": "", "detail": "no difference on the concrete input"}
    return {"reproduced": True, "fingerprint": v.fingerprint, "detail": v.detail}


# --------------------------------------------------------------------------------------------- O3 prefixes of real traces
_TRACES: Dict[Any, List[Dict[str, Any]]] = {}


def _real_run_trace(n: int, fail_at: int) -> List[Dict[str, Any]]:
    """Records the real runtime writes for a run of n nodes failing at node fail_at (-1: none)."""
    import uuid

    from semantiva.trace.drivers.jsonl import JsonlTraceDriver
    from vt import lib, stubs

    key = ("run", n, fail_at)
    if key not in _TRACES:
        with stubs.suspended():
            nodes = [{"processor": lib.OpAddDef, "parameters": {"addend": i}} for i in range(n)]
            if fail_at >= 0:
                nodes[fail_at] = {"processor": lib.OpBoom, "parameters": {}}
            path = os.path.join(C06._scratch(), "agg-%s.jsonl" % uuid.uuid4().hex[:8])
            try:
                lib.run_pipeline(nodes, lib.IntData(1), {}, trace=JsonlTraceDriver(path))
            except Exception:  # noqa: BLE001
                pass
            with open(path) as fh:
                _TRACES[key] = [json.loads(ln) for ln in fh.read().split("\n") if ln.strip()]
    return _TRACES[key]


def _real_launch_trace(fail_second: bool) -> List[Dict[str, Any]]:
    import uuid

    from semantiva.trace.drivers.jsonl import JsonlTraceDriver
    from vt import cliharness, lib, stubs

    key = ("launch", fail_second)
    if key not in _TRACES:
        with stubs.suspended():
            cfg = {"pipeline": {"nodes": [{"processor": lib.SrcV, "parameters": {}}, {"processor": lib.OpBoom, "parameters": {}}, {"processor": lib.OpAddDef, "parameters": {}}]},
                   "run_space": {"blocks": [{"mode": "by_position", "context": {"value": [1, 2], "fire": [0, 1 if fail_second else 0]}}]}}
            path = os.path.join(C06._scratch(), "aggl-%s.jsonl" % uuid.uuid4().hex[:8])
            cliharness.run_cli(cfg, trace=JsonlTraceDriver(path), ctx={}, run_space_launch_id="L-1")
            with open(path) as fh:
                _TRACES[key] = [json.loads(ln) for ln in fh.read().split("\n") if ln.strip()]
    return _TRACES[key]


def _o3_run(n: int, fail_at: int, k: int):
    from semantiva.trace.aggregation.aggregator import TraceAggregator

    trace = _real_run_trace(n, fail_at)
    if k > len(trace):
        return True
    prefix = trace[:k]
    agg = TraceAggregator()
    agg.ingest_many(prefix)
    rr, ll = agg.finalize_all()
    if k == 0:
        return True if not rr and not ll else Fail("C13.O3:verdict-from-nothing", "verdicts for an empty prefix")
    if len(rr) != 1 or ll:
        return Fail("C13.O3:run-count", "%d run verdicts, %d launch verdicts for a single-run trace" % (len(rr), len(ll)))
    v = rr[0]
    canon = [x["node_uuid"] for x in trace[0]["pipeline_spec_canonical"]["nodes"]]
    seen_nodes = [r["identity"]["node_id"] for r in prefix if r["record_type"] == "ser"]
    has_end = any(r["record_type"] == "pipeline_end" for r in prefix)
    exp_status = "complete" if has_end else "partial"
    exp_problems = [] if has_end else ["missing_pipeline_end"]
    if v.status != exp_status:
        return Fail("C13.O3:status", "prefix %d/%d of a run trace: status %r, documented %r" % (k, len(trace), v.status, exp_status))
    if v.problems != exp_problems:
        return Fail("C13.O3:problems", "prefix %d/%d: problems %r, documented %r" % (k, len(trace), v.problems, exp_problems))
    if v.missing_nodes != sorted(u for u in canon if u not in seen_nodes):
        return Fail("C13.O3:missing-nodes", "prefix %d/%d: missing_nodes %r, canonical nodes without SER %r" % (k, len(trace), v.missing_nodes, sorted(u for u in canon if u not in seen_nodes)))
    if v.orphan_nodes:
        return Fail("C13.O3:orphans", "prefix %d/%d: orphan nodes %r" % (k, len(trace), v.orphan_nodes))
    return True


def _o3_launch(fail_second: bool, k: int):
    from semantiva.trace.aggregation.aggregator import TraceAggregator

    trace = _real_launch_trace(fail_second)
    if k > len(trace):
        return True
    prefix = trace[:k]
    agg = TraceAggregator()
    agg.ingest_many(prefix)
    rr, ll = agg.finalize_all()
    if k == 0:
        return True if not rr and not ll else Fail("C13.O3:verdict-from-nothing", "verdicts for an empty prefix")
    starts = [r for r in prefix if r["record_type"] == "pipeline_start"]
    ends = {r["run_id"] for r in prefix if r["record_type"] == "pipeline_end"}
    exp_runs = {r["run_id"]: ("complete" if r["run_id"] in ends else "partial") for r in starts}
    got_runs = {v.run_id: v.status for v in rr}
    if got_runs != exp_runs:
        return Fail("C13.O3:launch:run-verdicts", "prefix %d/%d: run verdicts %r, documented %r" % (k, len(trace), got_runs, exp_runs))
    if len(ll) != 1:
        return Fail("C13.O3:launch:count", "%d launch verdicts" % len(ll))
    lv = ll[0]
    saw_end = any(r["record_type"] == "run_space_end" for r in prefix)
    counts = {"complete": 0, "partial": 0, "invalid": 0}
    for s in exp_runs.values():
        counts[s] += 1
    exp_status = "complete" if (saw_end and counts["partial"] == 0) else "partial"
    if lv.status != exp_status:
        return Fail("C13.O3:launch:status", "prefix %d/%d: launch status %r, documented %r" % (k, len(trace), lv.status, exp_status))
    if lv.problems != ([] if saw_end else ["missing_run_space_end"]):
        return Fail("C13.O3:launch:problems", "prefix %d/%d: launch problems %r" % (k, len(trace), lv.problems))
    if lv.summary.get("runs_by_status") != counts or lv.summary.get("runs_total") != len(exp_runs):
        return Fail("C13.O3:launch:roll-up", "prefix %d/%d: roll-up %r, counts of run verdicts %r" % (k, len(trace), lv.summary.get("runs_by_status"), counts))
    return True


def _make_o3(param):
    kind = param[0]

    def o3(k: int, fail_at: int):
        from crosshair.tracers import NoTracing
        from vt.engine import assume

        if kind == "run":
            n = param[1]
            assume(0 <= k <= n + 2 and -1 <= fail_at < n)
            ck = next(i for i in range(n + 3) if k == i)
            cf = next(i for i in range(-1, n) if fail_at == i)
            with NoTracing():
                return _o3_run(n, cf, ck)
        assume(0 <= k <= 12 and 0 <= fail_at <= 1)
        ck = next(i for i in range(13) if k == i)
        cf = next(i for i in range(2) if fail_at == i)
        with NoTracing():
            return _o3_launch(bool(cf), ck)

    return o3


def _replay_o3(param, a):
    from vt import cliharness, lib

    lib.register()
    cliharness.install()
    if param[0] == "run":
        return _wrap(_o3_run(param[1], a["fail_at"], a["k"]))
    return _wrap(_o3_launch(bool(a["fail_at"]), a["k"]))


def obligations(tier: str) -> List[Ob]:
    pairs = list(itertools.combinations(range(8), 2))
    if tier == "thorough":
        params = [(i, j, v, True) for (i, j) in pairs for v in sorted(TS_VARIANTS)]
        params += [(i, j, None) for (i, j) in itertools.combinations(range(5), 2)]
    else:
        params = [(i, j, v, False) for (i, j) in pairs for v in ("increasing", "ties")]
        params += [(i, j, "ser-end-tie", False) for (i, j) in pairs if 4 in (i, j) or 3 in (i, j)]
    # a second pool: two attempts of one launch (8 records as well)
    params += [(i, j, "increasing", False, "2attempts") for (i, j) in pairs]
    return [
        Ob("C13.O1", _make_o1, _replay_o1, params=params, budget=900, per_path=60,
           bound="two pools of 8 records (a launch with two runs; two attempts of one launch with one run each): 28 unordered pairs of pool records x timestamp layouts (quick: increasing, ties, last SER and pipeline_end in one tick for the pairs involving them; thorough: all four layouts) x pre-state = symbolic subset of the other 6 records x symbolic SER status of node 1 (thorough: both nodes) over {succeeded,error,running} x 3 poll flags (finalize_all before / between, independently for both orders): selectors symbolic, leaves executed natively; thorough adds the 10 pairs among the first 5 records with SYMBOLIC non-decreasing timestamps in 1..3 (traced). Full state (pure ingestion) + verdicts compared; finalize twice",
           targets=["semantiva/trace/aggregation/aggregator.py:TraceAggregator.ingest", "semantiva/trace/aggregation/aggregator.py:TraceAggregator.finalize_run", "semantiva/trace/aggregation/aggregator.py:TraceAggregator.finalize_launch", "semantiva/trace/aggregation/aggregator.py:TraceAggregator.finalize_all"]),
        Ob("C13.O3", _make_o3, _replay_o3, params=[("run", 1), ("run", 2), ("run", 3), ("launch",)], budget=300,
           bound="traces written by the real runtime (JSONL driver): runs of 1..3 nodes failing at a symbolic node or not; a 2-run launch through the real CLI with the second run failing or not; prefix length symbolic over every cut point",
           targets=["semantiva/trace/aggregation/aggregator.py:TraceAggregator.finalize_run", "semantiva/trace/aggregation/aggregator.py:TraceAggregator.finalize_launch"], stubs=["time", "env_pins", "datetime", "str"]),
    ]
