"""C11 -- sweep expressions are confined to the safe grammar and their own variables.

Structural induction over the interpreter's own expression grammar (read from the ast class
docstrings): one local lemma L(K) per concrete node class K reachable from `expr`.

  L(K): build a real ast.K whose AST-valued fields hold opaque children; list fields have symbolic
        length 0..2, optional fields are present under a symbolic flag, identifiers are symbolic
        strings.  Run the real _SafeVisitor(names).visit(node).  If it returns normally then
          (i)   K is on the documented whitelist,
          (ii)  a Name's id is a declared variable; a Call's func is a Name on the documented
                function list,
          (iii) every child position was visited (an unvisited child is an unchecked subtree).

By induction on the tree: if compile() accepts, every node at every depth is whitelisted.
E1 ties the evaluation environment to the documented functions; E2 makes `compile` itself the unit:
its verdict must be a function of (expression, declared names) only -- not of what was compiled before
-- and evaluation of an accepted expression must equal the reference value for all variable values.
"""
from __future__ import annotations

import ast
import re
from typing import Any, Dict, List, Optional, Tuple

from vt.runner import Fail, Ob

LEVEL = "model_checking"
ASSUMPTIONS = [
    "the expression grammar is the one the running interpreter documents in the ast class docstrings (ASDL)",
    "the documented whitelist is the node/function list frozen in this harness (DOC_NODES, DOC_FUNCS), not read from the code under test",
    "induction hypothesis: an opaque child (Hole) stands for an arbitrary subtree; visiting it is what the lemma demands",
    "ast.parse / compile / eval are CPython and trusted; expression text reaches the visitor only through ast.parse",
]
OUTSIDE = [
    "list fields longer than 2 children, identifiers longer than 8 characters",
    "E2: expression texts outside the 14-entry table (text -> AST is ast.parse, C code, not encodable)",
]

# The documented whitelist (semantiva/utils/safe_eval.py docstring + error message), frozen here.
DOC_NODES = frozenset(
    "Expression Module Expr Load BinOp UnaryOp BoolOp Compare IfExp Call Name Constant Tuple "
    "Add Sub Mult Div FloorDiv Mod Pow USub UAdd And Or Eq NotEq Lt LtE Gt GtE".split()
)
DOC_FUNCS = frozenset("abs min max round float int str bool".split())

_SUMS = ("expr", "operator", "boolop", "unaryop", "cmpop", "expr_context")
_PRODUCTS = ("keyword", "comprehension", "arguments", "arg")
_EXCLUDE = {"Num", "Str", "Bytes", "NameConstant", "Ellipsis", "Index", "ExtSlice", "Suite", "AugLoad", "AugStore", "Param"}


def _fields_of(cls) -> List[Tuple[str, str, str]]:
    """[(type, quantifier, name)] from the ASDL docstring of an ast class."""
    doc = (cls.__doc__ or "").strip()
    m = re.match(r"^\s*%s\((.*)\)\s*$" % re.escape(cls.__name__), doc, re.S)
    if not m:
        return []
    out = []
    for part in m.group(1).split(","):
        part = part.strip()
        if not part:
            continue
        t, name = part.split()
        q = ""
        if t[-1] in "*?":
            t, q = t[:-1], t[-1]
        out.append((t, q, name))
    return out


def grammar() -> Dict[str, List[Tuple[str, str, str]]]:
    """Every concrete node class reachable from `expr` (plus the Expression root)."""
    classes = {"Expression": ast.Expression}
    for s in _SUMS:
        base = getattr(ast, s)
        for sub in base.__subclasses__():
            if sub.__name__ in _EXCLUDE or sub.__module__ not in ("ast", "_ast"):
                continue
            classes[sub.__name__] = sub
    for p in _PRODUCTS:
        classes[p] = getattr(ast, p)
    return {name: _fields_of(cls) for name, cls in sorted(classes.items())}


GRAMMAR = grammar()
KINDS = sorted(GRAMMAR)


class Hole(ast.AST):
    """Opaque child standing for an arbitrary subtree."""

    _fields = ()

    def __init__(self, tag):
        self.tag = tag


_IDENTS = None


def _product_child(t: str, tag):
    """Real product-type node (keyword, comprehension, arguments, arg) with opaque grandchildren.
    Returns (node, tags): visiting the node itself or each of its AST children satisfies clause (iii)."""
    cls = getattr(ast, t)
    kw: Dict[str, Any] = {}
    tags = []
    for ft, q, name in GRAMMAR[t]:
        if ft in _SUMS or ft in _PRODUCTS:
            sub = tag + (name,)
            if ft == "expr_context":
                kw[name] = ast.Load()
            elif q == "*":
                kw[name] = [Hole(sub)]
                tags.append(sub)
            else:
                kw[name] = Hole(sub)
                tags.append(sub)
        elif ft in ("identifier", "string"):
            kw[name] = "k"
        else:
            kw[name] = 0
    return cls(**kw), tags


def _build(kind: str, lens: List[int], flags: List[bool], s1: str, s2: str, n0: int):
    """Real ast node of class `kind`; returns (node, child positions expected to be visited, info).
    Each expected position is a list of alternative tag-sets: a position is covered when all tags of one
    alternative were visited."""
    cls = getattr(ast, kind)
    kw: Dict[str, Any] = {}
    want: List[Any] = []
    li = fi = si = 0
    strs = [s1, s2]
    info: Dict[str, Any] = {}

    def child(t, tag):
        if t in _PRODUCTS:
            node, tags = _product_child(t, tag)
            node.tag = tag
            return node, (tag, tags)
        return Hole(tag), (tag, [tag])

    for t, q, name in GRAMMAR[kind]:
        is_ast = t in _SUMS or t in _PRODUCTS
        if is_ast:
            if t == "expr_context":
                kw[name] = ast.Load()  # exempt: no semantics in an expression evaluated with mode="eval"
                continue
            if kind == "Call" and name == "func":
                # the one position whose *type* the visitor inspects: a Name with a symbolic id, or opaque
                use_name = flags[fi]
                fi += 1
                if use_name:
                    kw[name] = ast.Name(id=strs[si], ctx=ast.Load())
                    info["func_id"] = strs[si]
                    si += 1
                else:
                    kw[name] = Hole((name, 0))
                    info["func_id"] = None
                continue
            if q == "*":
                n = lens[li]
                li += 1
                items = [child(t, (name, i)) for i in range(n)]
                kw[name] = [c for c, _ in items]
                want += [w for _, w in items]
            elif q == "?":
                present = flags[fi]
                fi += 1
                if present:
                    c, w = child(t, (name, 0))
                    kw[name] = c
                    want.append(w)
                else:
                    kw[name] = None
            else:
                c, w = child(t, (name, 0))
                kw[name] = c
                want.append(w)
        elif t == "identifier" or t == "string":
            if q == "?":
                present = flags[fi]
                fi += 1
                kw[name] = strs[si] if present else None
            else:
                kw[name] = strs[si]
            if kind == "Name" and name == "id":
                info["name_id"] = strs[si]
            si = min(si + 1, 1)
        elif t == "constant":
            kw[name] = n0
        elif t == "int":
            kw[name] = n0
        else:
            raise NotImplementedError("ASDL type %s" % t)
    return cls(**kw), want, info


def _run_visitor(node, names):
    from semantiva.utils.safe_eval import ExpressionError, _SafeVisitor

    seen: List[Any] = []
    v = _SafeVisitor(names)
    v.visit_Hole = lambda h: seen.append(h.tag)
    _orig_visit = v.visit

    def _visit(n):  # product-type children carry a tag too: being passed to visit() at all counts
        t = getattr(n, "tag", None)
        if t is not None and not isinstance(n, Hole):
            seen.append(t)
        return _orig_visit(n)

    v.visit = _visit
    try:
        v.visit(node)
    except ExpressionError:
        return None
    return seen


def _judge(kind: str, want, info, seen, names) -> Any:
    if seen is None:
        return True  # rejected: nothing to show
    if kind not in DOC_NODES:
        return Fail("C11.L:%s:not-whitelisted" % kind, "accepted a %s node" % kind)
    if kind == "Name":
        nid = info.get("name_id")
        if not (nid in names):
            return Fail("C11.L:Name:undeclared", "accepted name %r" % (nid,))
    if kind == "Call":
        fid = info.get("func_id")
        if fid is None:
            return Fail("C11.L:Call:func-not-a-name", "accepted a call whose func is not a Name")
        if not (fid in DOC_FUNCS):
            return Fail("C11.L:Call:func-not-listed", "accepted call of %r" % (fid,))
    for tag, tags in want:
        if tag in seen:
            continue
        if not all(t in seen for t in tags):
            return Fail("C11.L:%s:unvisited:%s" % (kind, tag[0]), "child %s[%d] never visited" % (tag[0], tag[1]))
    return True


def _make_lemma(kind: str):
    def lemma(l0: int, l1: int, l2: int, l3: int, l4: int, f0: bool, f1: bool, f2: bool, s1: str, s2: str, nm: str, n0: int):
        from vt.engine import assume

        assume(0 <= l0 <= 2 and 0 <= l1 <= 2 and 0 <= l2 <= 2 and 0 <= l3 <= 2 and 0 <= l4 <= 2)
        assume(len(s1) <= 8 and len(s2) <= 8 and len(nm) <= 8)
        node, want, info = _build(kind, [l0, l1, l2, l3, l4], [f0, f1, f2], s1, s2, n0)
        names = (nm, "x")
        seen = _run_visitor(node, names)
        return _judge(kind, want, info, seen, names)

    lemma.__name__ = "L_" + kind
    return lemma


_CARRIERS = ["max(1, {})", "abs(x) + ({})", "round(x, ndigits={})"]


def _replay_lemma(kind: str, a: Dict[str, Any]) -> Dict[str, Any]:
    node, want, info = _build(kind, [a["l0"], a["l1"], a["l2"], a["l3"], a["l4"]], [a["f0"], a["f1"], a["f2"]], a["s1"], a["s2"], a["n0"])
    names = (a["nm"], "x")
    seen = _run_visitor(node, names)
    v = _judge(kind, want, info, seen, names)
    if v is True:
        return {"reproduced": False, "fingerprint": "", "detail": "real visitor behaves correctly on the concrete node"}
    detail = v.detail
    # end-to-end confirmation where the failing position can hold an escape: real compile + evaluation touching a canary
    from semantiva.utils.safe_eval import ExpressionEvaluator

    if ":unvisited:" in v.fingerprint:
        import builtins

        attacks = []
        field = v.fingerprint.rsplit(":", 1)[1]
        if kind == "Call" and field == "keywords":
            attacks = ["max(x, 1, key=lambda q: __import__('builtins').setattr(__import__('builtins'), '_c11_canary', 1))", "round(x, ndigits=[].__class__.__mro__ and 0)"]
        for atk in attacks:
            try:
                fn = ExpressionEvaluator().compile(atk, {"x"})
                try:
                    fn(x=1)
                except Exception:
                    pass
                detail += " | compile ACCEPTED %r; canary=%r" % (atk, getattr(builtins, "_c11_canary", None))
            except Exception as e:  # noqa: BLE001
                detail += " | compile rejected %r (%s)" % (atk, type(e).__name__)
    return {"reproduced": True, "fingerprint": v.fingerprint, "detail": detail}


# ---------------------------------------------------------------------------------------------
# E1: evaluation environment; E2: compile is a function of (text, names) and evaluates faithfully
# ---------------------------------------------------------------------------------------------
# (text, free names, valid under the documented grammar, reference evaluator over a,b)
_TABLE: List[Tuple[str, Tuple[str, ...], bool, Any]] = [
    ("a + b", ("a", "b"), True, lambda a, b: a + b),
    ("a", ("a",), True, lambda a, b: a),
    ("2 * a - b", ("a", "b"), True, lambda a, b: 2 * a - b),
    ("max(a, b)", ("a", "b"), True, lambda a, b: a if a >= b else b),
    ("abs(a)", ("a",), True, lambda a, b: a if a >= 0 else -a),
    ("(a, b)", ("a", "b"), True, lambda a, b: (a, b)),
    ("a if a > b else b", ("a", "b"), True, lambda a, b: a if a > b else b),
    ("min(a, 3)", ("a",), True, lambda a, b: a if a <= 3 else 3),
    # + is only commutative on numbers: these two share an ExpressionSigV1 signature but not a value
    ("(a,) + (b,)", ("a", "b"), True, lambda a, b: (a, b)),
    ("(b,) + (a,)", ("a", "b"), True, lambda a, b: (b, a)),
    ("str(len)", (), False, None),
    ("a.real", ("a",), False, None),
    ("a[0]", ("a",), False, None),
    ("(lambda: a)()", ("a",), False, None),
    ("max(a, 1, key=lambda q: q)", ("a",), False, None),
    ("[a for a in (1,)]", ("a",), False, None),
    ("len", (), False, None),
    ("len((a, b))", ("a", "b"), False, None),
    ("__builtins__", (), False, None),
    # variables that are NAMED like whitelisted functions: as values they are the variables, not the functions
    ("max - abs", ("max", "abs"), True, lambda a, b: 2),
    ("a + open", ("a",), False, None),
]
_NAMESETS: List[Tuple[str, ...]] = [(), ("a",), ("b",), ("a", "b"), ("a", "b", "len"), ("a", "open"), ("max", "abs")]
_EXTRA_VALUES = {"max": 5, "abs": 3}


def _ref_accept(i: int, n: int) -> bool:
    text, free, valid, _ = _TABLE[i]
    names = _NAMESETS[n]
    if not valid:
        # invalid by grammar; texts whose only problem is an undeclared name become valid once declared
        if text in ("len", "str(len)", "a + open"):
            return all(f in names for f in _free_all(text))
        return False
    return all(f in names for f in free)


def _free_all(text: str) -> List[str]:
    return sorted({n.id for n in ast.walk(ast.parse(text, mode="eval")) if isinstance(n, ast.Name)} - set(DOC_FUNCS))


def _compile_once(ev, i: int, n: int, via_factory: bool = False, alias: bool = False):
    """compile text i with declared names n.  Text and names are concrete once the indices are forked on, and the
    compile itself runs natively (NoTracing): under the tracer CrossHair's set/dict proxies change in-place update
    semantics (`s |= ...` rebinding instead of mutating), which would hide state shared between evaluators."""
    from crosshair.tracers import NoTracing
    from semantiva.utils.safe_eval import ExpressionError

    ci = next(k for k in range(len(_TABLE)) if i == k)
    cn = next(k for k in range(len(_NAMESETS)) if n == k)
    text, names = _TABLE[ci][0], tuple(_NAMESETS[cn])
    with NoTracing():
        if via_factory and names:
            # the path a YAML derive.parameter_sweep takes: the sweep factory compiles the expression with the sweep's
            # variables as the declared names (stock evaluator)
            from semantiva.data_processors.parametric_sweep_factory import ParametricSweepFactory, SequenceSpec
            from vt import lib

            from semantiva.data_processors.parametric_sweep_factory import FromContext

            # alias: the variables are v_<name>, read from context keys called <name> -- the context KEYS are not names
            vars_ = {("v_" + nm): FromContext(nm) for nm in names} if alias else {nm: SequenceSpec([0]) for nm in names}
            try:
                ParametricSweepFactory.create(element=lib.OpTwo, element_kind="DataOperation", collection_output=lib.IntColl,
                                              vars=vars_, parametric_expressions={"a": text})
                return "accepted-by-factory"
            except ValueError:
                return None
        try:
            return ev.compile(text, set(names))
        except ExpressionError:
            return None


def custom_first_alias(custom_first, eval_between, same_evaluator) -> bool:
    """through the factory the (otherwise unused) flag `same_evaluator` selects the alias variant"""
    return bool(same_evaluator) and not custom_first and not eval_between


def _new_evaluator(custom: bool):
    from crosshair.tracers import NoTracing
    from semantiva.utils.safe_eval import ExpressionEvaluator

    with NoTracing():
        return ExpressionEvaluator(allowed_funcs={"len": len, "pow": pow}) if custom else ExpressionEvaluator()


def _make_e2(p):
    """p = ("single", None): one compile, text and names symbolic; ("same", i): two compiles of text i with
    symbolic name sets (history independence for the same text); ("pair", i): text i then any text."""
    mode, fixed = p

    def e2(i1: int, n1: int, i2: int, n2: int, same_evaluator: bool, a: int, b: int, via_factory: bool, custom_first: bool, eval_between: bool):
        from vt.engine import assume

        if mode == "single":
            assume(i2 == i1 and n2 == n1 and same_evaluator)
        elif mode == "same":
            assume(i1 == fixed and i2 == fixed)
        elif mode == "pair2":
            assume(i1 == fixed[0] and i2 == fixed[1])
        else:
            assume(i1 == fixed)
        if mode != "same":
            assume(not custom_first and not eval_between)  # the two history flags are explored on the same-text sequences
        if custom_first or eval_between:
            assume(not via_factory and not (custom_first and eval_between))
        return _e2_body(i1, n1, i2, n2, same_evaluator, a, b, via_factory, custom_first, eval_between)

    return e2


def _e2_body(i1: int, n1: int, i2: int, n2: int, same_evaluator: bool, a: int, b: int, via_factory: bool = False, custom_first: bool = False, eval_between: bool = False):
    from vt.engine import assume
    from semantiva.utils.safe_eval import ExpressionEvaluator

    assume(0 <= i1 < len(_TABLE) and 0 <= i2 < len(_TABLE) and 0 <= n1 < len(_NAMESETS) and 0 <= n2 < len(_NAMESETS))
    # history flags: the first evaluator carries its own extra functions (they are ITS business, not the next evaluator's);
    # the first compiled expression is evaluated before the second compile
    ev1 = _new_evaluator(True if (custom_first and not same_evaluator) else False)
    via = True if via_factory else False
    alias = True if (via and custom_first_alias(custom_first, eval_between, same_evaluator)) else False
    f1 = _compile_once(ev1, i1, n1, via, alias)
    if eval_between and callable(f1):
        try:
            f1(**{nm: 1 for nm in _NAMESETS[n1]})
        except Exception:  # noqa: BLE001
            pass
    ev2 = ev1 if same_evaluator else _new_evaluator(False)
    f2 = _compile_once(ev2, i2, n2, via, alias)
    for (i, n, f, which) in ((i1, n1, f1, "first"), (i2, n2, f2, "second")):
        if which == "first" and custom_first and not same_evaluator:
            continue  # the customised evaluator legitimately accepts more
        exp = _ref_accept(i, n) and not (alias and _NAMESETS[n])
        if (f is not None) != exp:
            return Fail("C11.E2:verdict:%s:%s" % (which, "accepted" if f is not None else "rejected"), "%s compile(%r, %r) %s; reference says %s" % (which, _TABLE[i][0], _NAMESETS[n], "accepted" if f is not None else "rejected", exp))
        ref = _TABLE[i][3]
        if callable(f) and ref is not None:
            kw = {}
            if "a" in _NAMESETS[n]:
                kw["a"] = a
            if "b" in _NAMESETS[n]:
                kw["b"] = b
            for extra in _NAMESETS[n]:
                if extra not in ("a", "b"):
                    kw[extra] = _EXTRA_VALUES.get(extra, 0)
            try:
                got = f(**kw)
            except Exception as e:  # noqa: BLE001
                return Fail("C11.E2:value", "%r raised %r when evaluated with its declared variables bound" % (_TABLE[i][0], e))
            if not (got == ref(a, b)):
                return Fail("C11.E2:value", "%r evaluated to a different value than the reference" % (_TABLE[i][0],))
    return True


def _replay_e2(_p, a: Dict[str, Any]) -> Dict[str, Any]:
    v = _e2_body(a["i1"], a["n1"], a["i2"], a["n2"], a["same_evaluator"], a["a"], a["b"], a.get("via_factory", False), a.get("custom_first", False), a.get("eval_between", False))
    if v is True:
        return {"reproduced": False, "fingerprint": "", "detail": "real compile() agrees with the reference on the concrete sequence"}
    return {"reproduced": True, "fingerprint": v.fingerprint, "detail": v.detail}


def _e1_body(k: int):
    from vt.engine import assume
    from semantiva.utils.safe_eval import ExpressionEvaluator
    import builtins

    funcs = sorted(DOC_FUNCS)
    assume(0 <= k < len(funcs))
    env = ExpressionEvaluator().env
    if sorted(x for x in env if x != "__builtins__") != funcs:
        return Fail("C11.E1:env-keys", "evaluation environment exposes %r" % (sorted(env),))
    if env[funcs[k]] is not getattr(builtins, funcs[k]):
        return Fail("C11.E1:env-binding:%s" % funcs[k], "name bound to something else than the documented builtin")
    return True


def _replay_e1(_p, a):
    v = _e1_body(a["k"])
    if v is True:
        return {"reproduced": False, "fingerprint": "", "detail": "env is the documented one"}
    return {"reproduced": True, "fingerprint": v.fingerprint, "detail": v.detail}


def obligations(tier: str) -> List[Ob]:
    obs: List[Ob] = []
    targets = ["semantiva/utils/safe_eval.py:_SafeVisitor.visit_Name", "semantiva/utils/safe_eval.py:_SafeVisitor.visit_Call", "semantiva/utils/safe_eval.py:_SafeVisitor.generic_visit"]
    obs.append(
        Ob(
            oid="C11.L",
            make=_make_lemma,
            replay=_replay_lemma,
            params=list(KINDS),
            budget=120 if tier == "quick" else 600,
            bound="one lemma per node class of the running interpreter's expression grammar (%d classes); list fields 0..2 children, optional fields by symbolic flag, identifiers symbolic strings len<=8, declared names (nm,'x') with nm symbolic" % len(KINDS),
            targets=targets,
        )
    )
    obs.append(
        Ob(
            oid="C11.E1",
            make=lambda _p: _e1_body,
            replay=_replay_e1,
            budget=60,
            bound="all 8 documented function names (symbolic index)",
            targets=["semantiva/utils/safe_eval.py:ExpressionEvaluator.__init__"],
        )
    )
    obs.append(
        Ob(
            oid="C11.E2",
            make=_make_e2,
            replay=_replay_e2,
            params=[("single", None)] + [("same", i) for i in range(len(_TABLE))] + [("pair2", (i, j)) for i in range(len(_TABLE)) for j in range(len(_TABLE)) if i != j and _TABLE[i][0].startswith(("(a,)", "(b,)")) and _TABLE[j][0].startswith(("(a,)", "(b,)"))] + ([("pair", i) for i in range(len(_TABLE))] if tier == "thorough" else []),
            budget=240 if tier == "quick" else 1200,
            bound="compile() as the unit: 21 expression texts x 7 declared-name sets (incl. variables named like whitelisted functions; through the factory also variables that alias context keys) (symbolic indices), variable values a,b symbolic ints (evaluation compared with a reference for all values); "
            "compile reached directly or through ParametricSweepFactory.create (symbolic flag); sequences of 2 compile() calls on the same text with symbolic name sets and same/fresh evaluator (quick), the two tuple-concatenation texts (same signature, different value) in both orders (quick), any ordered pair of texts (thorough)",
            targets=["semantiva/utils/safe_eval.py:ExpressionEvaluator.compile"],
        )
    )
    return obs


def extra_coverage(results):
    return {"grammar_classes": len(KINDS), "grammar_sample": {k: GRAMMAR[k] for k in ("Call", "BinOp", "Lambda", "keyword") if k in GRAMMAR}}
