"""C05 -- identities discriminate: a change of meaning changes semantic and config ID (Engine A + injective-hash model).

P1  one obligation per mutation operator: two configurations that differ in exactly one identity-bearing
    respect (values symbolic, value mutations under the assumption v1 != v2).  Required: semantic ids differ,
    config ids differ, and the affected node's UUID or node semantic id differs.
P2  textually identical nodes inside one pipeline get distinct UUIDs (values symbolic and equal).
P3  symbolic NAMES: sweep variable names and swept parameter names are symbolic strings (keys of CrossHair's
    symbolic mapping) -- the solver searches for a name that makes a domain / expression change invisible
    in compute_node_semantic_id.
"""
from __future__ import annotations

from typing import Any, Dict, List

from vt import idcfg, ihash
from vt.props import C04
from vt.runner import Fail, Ob

LEVEL = "model_checking"
STUBS = C04.STUBS
ASSUMPTIONS = C04.ASSUMPTIONS
OUTSIDE = ["mutations of several fields at once", "identifier strings longer than 8 characters (P3)"]


def setup_symbolic() -> None:
    C04.setup_symbolic()


# mutation operator -> (kwargs for config A, kwargs for config B, index of affected node, uses (v1,v2)?, sweep-part?)
def _mutations():
    from vt import lib

    return {
        "processor": (dict(proc1=lib.OpNest), dict(proc1=lib.OpNestB), 1, False, False),
        "node-added": (dict(), dict(extra_node=True), None, False, False),
        "sweep:wrapped-processor": (dict(element=lib.OpTwo), dict(element=lib.OpTwoB), 2, False, True),
        "sweep:expression": (dict(expr_a="t + s"), dict(expr_a="t - s"), 2, False, True),
        "sweep:expression-constant": (dict(expr_a="2 * t + s"), dict(expr_a="3 * t + s"), 2, False, True),
        "sweep:expression-regroup-sum": (dict(expr_a="t * s + 2"), dict(expr_a="t + s + 2"), 2, False, True),
        "sweep:expression-regroup-product": (dict(expr_a="2 * (t + s)"), dict(expr_a="2 * t * s"), 2, False, True),
        "sweep:expression-operand-swap": (dict(expr_a="t - s"), dict(expr_a="s - t"), 2, False, True),
        "sweep:mode": (dict(mode="combinatorial"), dict(mode="by_position"), 2, False, True),
        "sweep:broadcast": (dict(mode="by_position", broadcast=False), dict(mode="by_position", broadcast=True), 2, False, True),
        "sweep:collection": (dict(collection="IntColl"), dict(collection="IntColl2"), 2, False, True),
        "sweep:variable-kind": (dict(), dict(), 2, False, True),  # handled specially: from_context key renamed
    }


def _check_pair(name, a, b, affected, sweep_part, aspect):
    if aspect == "semantic_id":
        if a["semantic_id"] == b["semantic_id"]:
            return Fail("C05.P1:semantic_id-unchanged:%s" % name, "pipeline semantic id identical although %s differs" % name)
        return True
    if aspect == "config_id":
        if a["config_id"] == b["config_id"]:
            return Fail("C05.P1:config_id-unchanged:%s" % name, "pipeline config id identical although %s differs" % name)
        return True
    if affected is not None:
        if a["node_uuids"][affected] == b["node_uuids"][affected] and a["node_semantic_ids"][affected] == b["node_semantic_ids"][affected]:
            return Fail("C05.P1:node-identity-unchanged:%s" % name, "neither UUID nor node semantic id of the affected node changes when %s differs" % name)
    return True


def _make_p1(param):
    name, aspect = param

    def p1(v0: int, v1: int, v2: int, v3: int, v4: int, v5: int, v6: int, v7: int, t0: int, t1: int, w1: int, w2: int, depth: int, pos: int, special: int):
        from vt.engine import assume

        assume(w1 != w2 and 0 <= special <= 3)
        if not name.startswith("sweep:") or name in ("sweep:variable-domain",):
            assume(special == 0)
        return _p1_body(name, [v0, v1, v2, v3, v4, v5, v6, v7, 0, 0], [t0, t1], w1, w2, depth, pos, aspect, special)

    return p1


SPECIAL_DOMAIN = {1: (0, float("inf")), 2: (1, float("nan")), 3: (0, float("-inf"))}


def _p1_body(name, V, tvals, w1, w2, depth, pos, aspect, special=0):
    from vt import lib
    from vt.engine import assume

    lib.register()
    for sp, (idx, val) in SPECIAL_DOMAIN.items():
        if special == sp:
            # the swept domain (the same in both configurations) holds a non-finite float: every sweep mutation must
            # still be visible in the identities
            tvals = list(tvals)
            tvals[idx] = val
    if ihash.INSTALLED:
        ihash.reset()
    muts = _mutations()
    if name in muts and name != "sweep:variable-kind":
        ka, kb, affected, _, sweep_part = muts[name]
        A = idcfg.config(V, tvals, {}, **ka)
        B = idcfg.config(V, tvals, {}, **kb)
    elif name == "param-value":
        # parameter value at depth 0 (k), 1 (opts.y), 2 (opts.x.p), inside a list (opts.z[0]) or list-of-dict (opts.z[1].w)
        assume(0 <= depth <= 4)
        slot = {0: 1, 1: 4, 2: 2, 3: 5, 4: 6}
        VA, VB = list(V), list(V)
        for d, i in slot.items():
            if depth == d:
                VA[i], VB[i] = w1, w2
        A, B, affected, sweep_part = idcfg.config(VA, tvals, {}), idcfg.config(VB, tvals, {}), 1, False
        name = "param-value:depth%s" % depth
    elif name == "param-value-json-kind":
        # values Python calls equal but JSON (hence the canonical form) does not: 1 / true / 1.0, 0 / false, 2 / 2.0
        KINDS = [(1, True), (0, False), (2, 2.0), (1, 1.0), (True, 1.0)]
        assume(0 <= pos < len(KINDS) and 0 <= depth <= 1)
        ka, kb = KINDS[next(i for i in range(len(KINDS)) if pos == i)]
        VA, VB = list(V), list(V)
        slot = 1 if depth == 0 else 4
        VA[slot], VB[slot] = ka, kb
        A, B, affected, sweep_part = idcfg.config(VA, tvals, {}), idcfg.config(VB, tvals, {}), 1, False
    elif name == "shorthand-argument":
        # processors given as resolver strings whose distinguishing argument does not survive into the generated class name
        PAIRS = [("rename:cal.gain:gain", "rename:cal_gain:gain"), ("rename:a_to_b:c", "rename:a:b_to_c"), ("delete:run.tmp", "delete:run_tmp"),
                 ('template:"{a}_x":lab', 'template:"{a}_y":lab'), ("delete:a", "delete:b")]
        assume(0 <= pos < len(PAIRS))
        sa, sb = PAIRS[next(i for i in range(len(PAIRS)) if pos == i)]
        A = idcfg.plain_nodes(V) + [{"processor": sa}]
        B = idcfg.plain_nodes(V) + [{"processor": sb}]
        affected, sweep_part = 3, False
    elif name == "sweep:two-nodes-exchange":
        A, B, affected, sweep_part = idcfg.config(V, tvals, {}, two_sweeps=True), idcfg.config(V, tvals, {}, two_sweeps=True, swap_sweeps=True), 2, True
    elif name == "node-order":
        VA = list(V)
        VA[1], VA[7] = w1, w2  # two different operations: order matters
        A, B, affected, sweep_part = idcfg.plain_nodes(VA, (0, 1, 2)), idcfg.plain_nodes(VA, (0, 2, 1)), None, False
    elif name == "sweep:variable-domain":
        # sequences of length 7 differing in exactly one (symbolic) position: positions 3 lies outside head/tail
        assume(0 <= pos < 7)
        base = [tvals[0], tvals[1], V[2], V[3], V[4], V[5], V[6]]
        sa, sb = list(base), list(base)
        for i in range(7):
            if pos == i:
                sa[i], sb[i] = w1, w2
        A, B, affected, sweep_part = idcfg.config(V, sa, {}), idcfg.config(V, sb, {}), 2, True
    elif name == "sweep:variable-domain-length":
        A, B, affected, sweep_part = idcfg.config(V, [tvals[0], tvals[1]], {}), idcfg.config(V, [tvals[0], tvals[1], tvals[1]], {}), 2, True
    elif name == "sweep:unreferenced-variable-domain":
        # a declared variable that no expression reads is still published as <var>_values: its domain is part of the meaning
        A, B, affected, sweep_part = idcfg.config(V, tvals, {}, unref_vals=[w1, 5, 6]), idcfg.config(V, tvals, {}, unref_vals=[w2, 5, 6]), 2, True
    elif name == "sweep:variable-kind":
        A = idcfg.config(V, tvals, {})
        B = idcfg.config(V, tvals, {})
        B[2]["derive"]["parameter_sweep"]["variables"]["s"] = {"from_context": "sv2"}
        affected, sweep_part = 2, True
    else:
        raise AssertionError(name)
    a = idcfg.identities(A, model=True)
    b = idcfg.identities(B, model=True)
    return _check_pair(name, a, b, affected, sweep_part, aspect)


MUTS = ["processor", "node-added", "node-order", "param-value", "param-value-json-kind", "shorthand-argument", "sweep:two-nodes-exchange", "sweep:wrapped-processor", "sweep:expression", "sweep:expression-constant", "sweep:expression-regroup-sum", "sweep:expression-regroup-product", "sweep:expression-operand-swap", "sweep:mode", "sweep:broadcast", "sweep:collection", "sweep:variable-kind", "sweep:variable-domain", "sweep:variable-domain-length", "sweep:unreferenced-variable-domain"]


def _replay_p1(param, a):
    name, aspect = param
    V = [a["v%d" % i] for i in range(8)] + [0, 0]
    v = _p1_body(name, V, [a["t0"], a["t1"]], a["w1"], a["w2"], a["depth"], a["pos"], aspect, a.get("special", 0))
    return C04._wrap(v)


# --------------------------------------------------------------------------------------------- P2
def _p2(v: int, n: int):
    from vt.engine import assume

    assume(2 <= n <= 4)
    return _p2_body(v, n)


def _p2_body(v, n):
    from semantiva.pipeline.graph_builder import build_canonical_spec
    from vt import lib

    lib.register()
    if ihash.INSTALLED:
        ihash.reset()
    nodes = [{"processor": lib.OpAddDef, "parameters": {"addend": v}} for _ in range(n)]
    canonical, _ = build_canonical_spec(nodes)
    uu = [x["node_uuid"] for x in canonical["nodes"]]
    for i in range(len(uu)):
        for j in range(i + 1, len(uu)):
            if uu[i] == uu[j]:
                return Fail("C05.P2:identical-nodes-share-uuid", "nodes %d and %d are textually identical and share a UUID" % (i, j))
    return True


# --------------------------------------------------------------------------------------------- P3
def _meta(variables, param_expressions):
    return {"type": "derive.parameter_sweep", "version": 1, "element_ref": "m.E", "param_expressions": param_expressions, "variables": variables,
            "mode": "combinatorial", "broadcast": False, "collection": "m.C", "dependencies": {"required_external_parameters": [], "context_keys": []}}


def _p3(names: Dict[str, int], name: str, where: int, w1: int, w2: int):
    from vt.engine import assume

    assume(len(names) == 0 and len(name) <= 8 and w1 != w2 and 0 <= where <= 1)
    return _p3_body(dict(names), name, where, w1, w2)


def _p3_body(empty, name, where, w1, w2):
    from semantiva.metadata.semantic_id import compute_node_semantic_id

    if ihash.INSTALLED:
        ihash.reset()

    def dom(v):
        return {"kind": "sequence", "count": 1, "sample": {"head": [v], "tail": [v], "digest_sha256": "d%s" % ("a" if v is w1 else "b")}}

    if where == 0:  # variable name
        va, vb = dict(empty), dict(empty)
        va[name] = dom(w1)
        vb[name] = dom(w2)
        a = compute_node_semantic_id(_meta(va, {"p": {"sig": {"format": "ExpressionSigV1", "ast": "X"}}}))
        b = compute_node_semantic_id(_meta(vb, {"p": {"sig": {"format": "ExpressionSigV1", "ast": "X"}}}))
        what = "variable"
    else:  # swept parameter name
        pa, pb = dict(empty), dict(empty)
        pa[name] = {"sig": {"format": "ExpressionSigV1", "ast": "A"}}
        pb[name] = {"sig": {"format": "ExpressionSigV1", "ast": "B"}}
        a = compute_node_semantic_id(_meta({"t": dom(w1)}, pa))
        b = compute_node_semantic_id(_meta({"t": dom(w1)}, pb))
        what = "parameter"
    if a == b:
        return Fail("C05.P3:name-hides-change:%s" % name, "a sweep %s literally named %r is dropped from the node semantic id: changing its %s leaves the id unchanged" % (what, name, "domain" if where == 0 else "expression"))
    return True


def _replay_p3(_p, a):
    return C04._wrap(_p3_body({}, a["name"], a["where"], a["w1"], a["w2"]))


def obligations(tier: str) -> List[Ob]:
    tg = ["semantiva/pipeline/graph_builder.py:_canonical_node", "semantiva/pipeline/graph_builder.py:build_canonical_spec", "semantiva/metadata/semantic_id.py:compute_pipeline_semantic_id", "semantiva/metadata/semantic_id.py:compute_pipeline_config_id", "semantiva/metadata/semantic_id.py:compute_node_semantic_id", "semantiva/metadata/semantic_id.py:variable_domain_signature", "semantiva/data_processors/parametric_sweep_factory.py:ParametricSweepFactory.create"]
    return [
        Ob("C05.P1", _make_p1, _replay_p1, params=[(m, a) for m in MUTS for a in ("semantic_id", "config_id", "node")], budget=600, per_path=60,
           bound="(for the sweep operators the shared swept domain optionally holds inf / nan / -inf, symbolic selector) 20 mutation operators x 3 aspects (semantic id / config id / affected node's UUID-or-semantic-id), one obligation each (processor, node added, node order, parameter value at depth 0-2 / in a list / in a dict in a list, and every part of a sweep definition: wrapped processor, expression, expression constant, mode, broadcast, collection, variable kind, variable domain at a symbolic position of a 7-element sequence, domain length); all values symbolic, mutated values w1 != w2",
           targets=tg, stubs=list(STUBS) + ["injective-hash model"]),
        Ob("C05.P2", lambda _p: _p2, lambda _p, a: C04._wrap(_p2_body(a["v"], a["n"])), budget=120, bound="2..4 textually identical nodes with one symbolic parameter value", targets=tg[:2]),
        Ob("C05.P3", lambda _p: _p3, _replay_p3, budget=600, per_path=60,
           bound="sweep variable name / swept parameter name = symbolic string of length <= 8 (key of CrossHair's symbolic mapping); domain value resp. expression signature changed",
           targets=["semantiva/metadata/semantic_id.py:compute_node_semantic_id", "semantiva/metadata/semantic_id.py:_strip_ui_only"], stubs=["injective-hash model"]),
    ]
