"""C12 -- equal ExpressionSigV1 signatures imply equal values; commuted forms agree.

The code under test (semantiva.metadata.semantic_id.normalize_expression_sig_v1) is executed for real on
every enumerated expression; the universally quantified part -- "for every assignment of the variables"
-- is decided by z3 on an encoding of Python's integer semantics generated from each expression's AST
(vt/z3enc/expr.py).  Every solver run is preceded by a conformance pass that pushes concrete grids through
both the encoding and the real ExpressionEvaluator.

  O1 soundness       for every signature class with >1 member: exists assignment where a member differs
                     from the class representative?  must be unsat.
  O2 commutation     every single AC move (swap operands of + or *, rotate (x.y).z <-> x.(y.z)) at any
                     position keeps the signature (closure under single moves = all permutations and
                     re-associations, because the universe is closed under the moves).
  O3 discrimination  every single-point mutation (swap operands of a non-commutative operator, change a
                     constant / variable / function / operator): if z3 finds a distinguishing assignment
                     the signatures must differ.
Universes: U(N) all expressions up to N AST nodes; NEST: every pair (thorough: triple) of atoms drawn from
leaves and all 3-node binary expressions, joined by + or * (nested chains: the place where sorting and
flattening interact); RAND: VERIF_SEED-seeded larger expressions (reported as a draw).
"""
from __future__ import annotations

import ast
import itertools
import os
import random
import time
from typing import Any, Dict, Iterable, List, Tuple

from vt.runner import Ob

LEVEL = "translation_validation"
ASSUMPTIONS = [
    "exact arithmetic over Python int; divisors are assumed non-zero (both expressions of a pair would raise otherwise)",
    "z3 5.1 integer arithmetic (non-linear where products of variables occur); 'unknown' is counted inconclusive",
    "the encoding of Python semantics (floor //, %, abs/min/max, comparisons as 0/1, if-else truthiness) is validated on a concrete grid against the real ExpressionEvaluator on every run",
]
OUTSIDE = ["symbolic exponents, floats, strings/tuples", "expressions larger than the stated universes (the RAND draw is a sample, not a bound)"]

VARS = ("a", "b", "c")
LEAVES = ["a", "b", "c", "0", "1", "2", "3"]
BINOPS = ["+", "-", "*", "//", "%", "<", "==", "min", "max"]
COMM = ("+", "*")

Tree = Any  # str leaf | tuple


def size(t: Tree) -> int:
    if isinstance(t, str):
        return 1
    if t[0] == "**":
        return size(t[1]) + 2
    return 1 + sum(size(x) for x in t[1:])


def text(t: Tree) -> str:
    if isinstance(t, str):
        return t
    k = t[0]
    if k == "raw":  # ("raw", source text) -- used verbatim, no parentheses added (LEX universe)
        return t[1]
    if k == "chain":  # ("chain", (op1, op2, ...), x, y, z, ...)
        parts = [text(t[2])]
        for op, x in zip(t[1], t[3:]):
            parts += [op, text(x)]
        return "(%s)" % " ".join(parts)
    if k == "neg":
        return "(-%s)" % text(t[1])
    if k == "abs":
        return "abs(%s)" % text(t[1])
    if k in ("min", "max"):
        return "%s(%s, %s)" % (k, text(t[1]), text(t[2]))
    if k == "**":
        return "(%s ** %d)" % (text(t[1]), t[2])
    if k == "if":
        return "(%s if %s else %s)" % (text(t[1]), text(t[2]), text(t[3]))
    return "(%s %s %s)" % (text(t[1]), k, text(t[2]))


_MEMO: Dict[Tuple[int, Tuple[str, ...]], List[Tree]] = {}


def exact(n: int, leaves: Tuple[str, ...]) -> List[Tree]:
    key = (n, leaves)
    if key in _MEMO:
        return _MEMO[key]
    out: List[Tree] = []
    if n == 1:
        out = list(leaves)
    elif n >= 2:
        for e in exact(n - 1, leaves):
            out.append(("neg", e))
            out.append(("abs", e))
        for i in range(1, n - 1):
            for l in exact(i, leaves):
                for r in exact(n - 1 - i, leaves):
                    for op in BINOPS:
                        out.append((op, l, r))
        if n >= 3:
            for e in exact(n - 2, leaves):
                out.append(("**", e, 2))
                out.append(("**", e, 3))
        if n >= 4:
            for i in range(1, n - 2):
                for j in range(1, n - 1 - i):
                    k = n - 1 - i - j
                    if k < 1:
                        continue
                    for x in exact(i, leaves):
                        for c in exact(j, leaves):
                            for y in exact(k, leaves):
                                out.append(("if", x, c, y))
    _MEMO[key] = out
    return out


def universe(N: int, leaves=tuple(LEAVES)) -> Iterable[Tree]:
    for n in range(1, N + 1):
        yield from exact(n, leaves)


def sig(t: Tree) -> str:
    from semantiva.metadata.semantic_id import normalize_expression_sig_v1

    s = normalize_expression_sig_v1(text(t))
    return s["ast"]


def ac_moves(t: Tree) -> Iterable[Tree]:
    """All trees one AC move away (swap at a + or *, or one rotation), at any position."""
    if isinstance(t, str):
        return
    k = t[0]
    if k in COMM:
        yield (k, t[2], t[1])
        if not isinstance(t[1], str) and t[1][0] == k:  # (x.y).z -> x.(y.z)
            yield (k, t[1][1], (k, t[1][2], t[2]))
        if not isinstance(t[2], str) and t[2][0] == k:  # x.(y.z) -> (x.y).z
            yield (k, (k, t[1], t[2][1]), t[2][2])
    for i in range(1, len(t)):
        if isinstance(t[i], (str, tuple)) and not isinstance(t[i], int):
            for sub in ac_moves(t[i]):
                yield t[:i] + (sub,) + t[i + 1:]


def mutations(t: Tree) -> Iterable[Tuple[str, Tree]]:
    """Single-point mutations with an operator label."""
    if isinstance(t, str):
        alts = [x for x in LEAVES if x != t]
        if t in VARS:
            for x in VARS:
                if x != t:
                    yield ("var", x)
            yield ("var->const", "1")
        else:
            for x in ("0", "1", "2", "3"):
                if x != t:
                    yield ("const", x)
        return
    k = t[0]
    if k in ("-", "//", "%", "<"):
        yield ("swap-noncomm:" + k, (k, t[2], t[1]))
    if k in BINOPS:
        for k2 in BINOPS:
            if k2 != k and (k in ("min", "max")) == (k2 in ("min", "max")):
                yield ("op:%s->%s" % (k, k2), (k2, t[1], t[2]))
    if k == "neg":
        yield ("drop-neg", t[1])
        yield ("neg->abs", ("abs", t[1]))
    if k == "abs":
        yield ("abs->neg", ("neg", t[1]))
    if k == "**":
        yield ("exp", ("**", t[1], 5 - t[2]))
    for i in range(1, len(t)):
        if isinstance(t[i], int):
            continue
        for lab, sub in mutations(t[i]):
            yield (lab, t[:i] + (sub,) + t[i + 1:])


def _conformance(samples: List[Tree]) -> Tuple[int, List[str]]:
    """Encoding vs. the real ExpressionEvaluator on a concrete grid. Returns (#agreeing evaluations, mismatches)."""
    import z3
    from semantiva.utils.safe_eval import ExpressionEvaluator
    from vt.z3enc.expr import _to_int, encode_text

    ev = ExpressionEvaluator()
    grid = [(-3, 2, 5), (0, -1, 1), (4, 4, -2), (7, -5, 3), (-1, -1, -1)]
    n = 0
    bad: List[str] = []
    for t in samples:
        tx = text(t)
        try:
            fn = ev.compile(tx, set(VARS))
        except Exception as e:  # noqa: BLE001
            bad.append("real compile rejected %s: %r" % (tx, e))
            continue
        e, side, env = encode_text(tx, VARS)
        for (a, b, c) in grid:
            try:
                real = fn(a=a, b=b, c=c)
            except ZeroDivisionError:
                continue
            sub = [(env["a"], z3.IntVal(a)), (env["b"], z3.IntVal(b)), (env["c"], z3.IntVal(c))]
            val = z3.simplify(z3.substitute(_to_int(e), *sub))
            if not z3.is_int_value(val) or val.as_long() != int(real):
                bad.append("%s at %r: real=%r enc=%s" % (tx, (a, b, c), real, val))
            else:
                n += 1
    return n, bad


def _check_classes(trees: Iterable[Tree], shard: int, nshards: int, res: Dict[str, Any], label: str, deadline: float, names: Tuple[str, ...] = VARS) -> None:
    """O1 over a set of trees: group by real signature; z3 decides member == representative for all assignments."""
    from vt.z3enc.expr import Unsupported, distinguish
    import zlib

    classes: Dict[str, List[Tree]] = {}
    n = 0
    for t in trees:
        n += 1
        s = sig(t)
        if zlib.crc32(s.encode()) % nshards != shard:
            continue
        classes.setdefault(s, []).append(t)
    res["programs"] += n
    multi = [v for v in classes.values() if len(v) > 1]
    res["classes"] += len(classes)
    res["multi_member_classes"] += len(multi)
    for members in multi:
        rep = members[0]
        for m in members[1:]:
            if time.perf_counter() > deadline:
                res["inconclusive"] += 1
                res["detail"] = "time budget exhausted in %s" % label
                return
            try:
                r, model = distinguish(text(rep), text(m), names)
            except Unsupported as e:
                res["inconclusive"] += 1
                res["detail"] = "unsupported: %s" % e
                continue
            res["queries"] += 1
            if r == "unsat":
                res["unsat"] += 1
                if res["sample"] is None:
                    res["sample"] = {"universe": label, "same_signature": [text(rep), text(m)], "z3": "unsat (equal for every assignment)"}
            elif r == "sat":
                res["cex"].append({"kind": "O1", "e1": text(rep), "e2": text(m), "assignment": model, "universe": label, "names": list(names)})
                return
            else:
                res["inconclusive"] += 1
                res["unknown_pairs"].append([text(rep), text(m)])


def _check_moves(trees: Iterable[Tree], shard: int, nshards: int, res: Dict[str, Any], label: str, deadline: float) -> None:
    """O2: every single AC move keeps the real signature."""
    for i, t in enumerate(trees):
        if i % nshards != shard:
            continue
        if time.perf_counter() > deadline:
            res["inconclusive"] += 1
            res["detail"] = "time budget exhausted in %s/O2" % label
            return
        s0 = None
        for t2 in ac_moves(t):
            if s0 is None:
                s0 = sig(t)
            res["ac_moves_checked"] += 1
            if sig(t2) != s0:
                res["cex"].append({"kind": "O2", "e1": text(t), "e2": text(t2), "assignment": None, "universe": label})
                return


def _check_mutations(trees: Iterable[Tree], shard: int, nshards: int, res: Dict[str, Any], label: str, deadline: float, per_tree: int = 1000) -> None:
    """O3: if z3 separates e and mutate(e), the signatures must differ."""
    from vt.z3enc.expr import Unsupported, distinguish

    for i, t in enumerate(trees):
        if i % nshards != shard:
            continue
        s0 = sig(t)
        for j, (lab, t2) in enumerate(mutations(t)):
            if j >= per_tree:
                break
            if sig(t2) != s0:
                res["mutations_distinguished_by_sig"] += 1
                continue
            if time.perf_counter() > deadline:
                res["inconclusive"] += 1
                res["detail"] = "time budget exhausted in %s/O3" % label
                return
            try:
                r, model = distinguish(text(t), text(t2), VARS)
            except Unsupported:
                continue
            res["queries"] += 1
            if r == "sat":
                res["cex"].append({"kind": "O3:" + lab, "e1": text(t), "e2": text(t2), "assignment": model, "universe": label})
                return
            if r == "unsat":
                res["unsat"] += 1
                res["mutations_semantically_equal"] += 1
            else:
                res["inconclusive"] += 1


def _atoms() -> List[Tree]:
    small = ("a", "b", "2")
    out: List[Tree] = list(LEAVES)
    for op in ("+", "*", "-", "//"):
        for l in small:
            for r in small:
                out.append((op, l, r))
    out += [("neg", "a"), ("abs", "b")]
    return out


def nest_universe(arity: int) -> Iterable[Tree]:
    at = _atoms()
    for op in COMM:
        if arity == 2:
            for x, y in itertools.product(at, at):
                yield (op, x, y)
        else:
            sub = at[:7] + [a for a in at[7:] if a[0] in ("+", "*", "-")][:18]
            for x, y, z in itertools.product(sub, sub, sub):
                yield (op, (op, x, y), z)
                yield (op, x, (op, y, z))


def rand_universe(seed: int, count: int) -> List[Tree]:
    rnd = random.Random(seed)

    def gen(depth: int) -> Tree:
        if depth == 0 or rnd.random() < 0.25:
            return rnd.choice(LEAVES)
        r = rnd.random()
        if r < 0.12:
            return (rnd.choice(["neg", "abs"]), gen(depth - 1))
        if r < 0.18:
            return ("**", gen(depth - 1), rnd.choice([2, 3]))
        if r < 0.24:
            return ("if", gen(depth - 1), gen(depth - 1), gen(depth - 1))
        op = rnd.choice(BINOPS + ["+", "*", "+", "*"])
        return (op, gen(depth - 1), gen(depth - 1))

    out = []
    while len(out) < count:
        t = gen(3)
        if 6 <= size(t) <= 11:
            out.append(t)
    return out


LEX_NAMES = ("p", "q", "r")


def lex_universe() -> Tuple[List[Tree], Tuple[str, ...]]:
    """Texts that differ only in where the token boundaries fall: every keyword expression ``X if Y else Z`` (also as the
    left operand of ``+ 1``, inside ``abs()`` and negated) over three names, next to the single identifier its text
    spells once the blanks are removed (``p if q else r`` / ``pifqelser``), in both orders of first use.  The fused
    identifiers are ordinary free variables of the encoding, so z3 separates any two members of a class at once."""
    fused: List[str] = []
    trees: List[Tree] = []
    for i, (x, y, z) in enumerate(itertools.product(LEX_NAMES, repeat=3)):
        src = "%s if %s else %s" % (x, y, z)
        f = "".join(src.split())
        fused.append(f)
        forms = [(src, f), (src + " + 1", f + " + 1"), ("1 + (%s)" % src, "1 + (%s)" % f), ("abs(%s)" % src, "abs(%s)" % f), ("-(%s)" % src, "-(%s)" % f)]
        for a, b in forms:
            pair = [("raw", a), ("raw", b)]
            trees += pair if i % 2 == 0 else pair[::-1]
    for j, (x, y) in enumerate(itertools.product(LEX_NAMES, repeat=2)):
        for kw in ("or", "and"):
            src = "%s %s %s" % (x, kw, y)
            f = "".join(src.split())
            fused.append(f)
            for a, b in [(src, f), (src + " + 1", f + " + 1"), ("abs(%s)" % src, "abs(%s)" % f)]:
                pair = [("raw", a), ("raw", b)]
                trees += pair if j % 2 == 0 else pair[::-1]
    return trees, LEX_NAMES + tuple(dict.fromkeys(fused))


def _conformance_named(trees: List[Tree], names: Tuple[str, ...]) -> Tuple[int, List[str]]:
    """Encoding vs. the real ExpressionEvaluator for texts over an arbitrary name set (LEX universe)."""
    import z3
    from semantiva.utils.safe_eval import ExpressionEvaluator
    from vt.z3enc.expr import _to_int, encode_text

    ev = ExpressionEvaluator()
    grid = [(-3, 2, 5), (0, -1, 1), (4, 0, -2), (0, 0, 0), (7, -5, 3)]
    n = 0
    bad: List[str] = []
    for t in trees:
        tx = text(t)
        try:
            fn = ev.compile(tx, set(names))
        except Exception as e:  # noqa: BLE001
            bad.append("real compile rejected %s: %r" % (tx, e))
            continue
        e, _side, env = encode_text(tx, names)
        for g in grid:
            vals = {nm: (g[i] if i < 3 else 11 + i) for i, nm in enumerate(names)}
            try:
                real = fn(**vals)
            except ZeroDivisionError:
                continue
            val = z3.simplify(z3.substitute(_to_int(e), *[(env[k], z3.IntVal(v)) for k, v in vals.items()]))
            if not z3.is_int_value(val) or val.as_long() != int(real):
                bad.append("%s at %r: real=%r enc=%s" % (tx, g, real, val))
            else:
                n += 1
    return n, bad


def _make(param):
    what, arg, shard, nshards, budget = param

    def run(known_fps):
        t0 = time.perf_counter()
        deadline = t0 + budget
        res: Dict[str, Any] = {"status": "inconclusive", "queries": 0, "unsat": 0, "programs": 0, "classes": 0, "multi_member_classes": 0, "ac_moves_checked": 0,
                               "mutations_distinguished_by_sig": 0, "mutations_semantically_equal": 0, "inconclusive": 0, "cex": [], "unknown_pairs": [], "sample": None, "detail": "",
                               "conformance_evaluations": 0}
        # translator conformance first (fail closed)
        conf_samples = list(universe(3))[::7] + [t for i, t in enumerate(universe(4, ("a", "b", "2"))) if i % 23 == shard % 23][:60]
        n_ok, bad = _conformance(conf_samples)
        res["conformance_evaluations"] = n_ok
        if bad:
            res["status"] = "harness_error"
            res["detail"] = "encoding disagrees with the real evaluator: " + "; ".join(bad[:3])
            return res
        if what == "U":
            trees = list(universe(arg))
            _check_classes(trees, shard, nshards, res, "U(%d)" % arg, deadline)
            if not res["cex"]:
                _check_moves(trees, shard, nshards, res, "U(%d)" % arg, deadline)
            if not res["cex"]:
                _check_mutations(list(universe(min(arg, 4))), shard, nshards, res, "U(%d)" % min(arg, 4), deadline)
        elif what == "NEST":
            trees = list(nest_universe(arg))
            _check_classes(trees, shard, nshards, res, "NEST(%d)" % arg, deadline)
            if not res["cex"]:
                _check_moves(trees, shard, nshards, res, "NEST(%d)" % arg, deadline)
        elif what == "CMP":
            # comparisons incl. chains: all (x op y) and (x op1 y op2 z) over leaves {a, b, c, 1} and the six operators
            ops = ("<", "<=", ">", ">=", "==", "!=")
            lv = ("a", "b", "c", "1")
            trees = [("chain", (o,), x, y) for o in ops for x in lv for y in lv]
            trees += [("chain", (o1, o2), x, y, z) for o1 in ops for o2 in ops for x in lv for y in lv for z in lv]
            _check_classes(trees, shard, nshards, res, "CMP", deadline)
        elif what == "LEX":
            trees, names = lex_universe()
            n_ok, bad = _conformance_named(trees[shard::nshards], names)
            res["conformance_evaluations"] += n_ok
            if bad:
                res["status"] = "harness_error"
                res["detail"] = "encoding disagrees with the real evaluator: " + "; ".join(bad[:3])
                return res
            _check_classes(trees, shard, nshards, res, "LEX", deadline, names=names)
        elif what == "BIGC":
            # constants around the places where a numeric representation could change (2**31, 2**53, 2**63, 2**64, 10**16):
            # O1 over all expressions with <= 3 nodes whose constants come from that table
            trees = list(universe(3, tuple(["a", "b"] + [str(c) for c in BIG_CONSTS])))
            _check_classes(trees, shard, nshards, res, "BIGC", deadline)
        elif what == "RAND":
            seed = int(os.environ.get("VERIF_SEED", "0") or 0)
            trees = rand_universe(seed * 1000 + 17, arg)
            res["programs"] += len(trees)
            _check_moves(trees, shard, nshards, res, "RAND(seed=%d)" % seed, deadline)
            if not res["cex"]:
                _check_mutations(trees, shard, nshards, res, "RAND(seed=%d)" % seed, deadline, per_tree=12)
        if res["cex"]:
            c = res["cex"][0]
            res["status"] = "refuted"
            res["counterexample"] = c
            res["detail"] = "%s: %s vs %s at %s" % (c["kind"], c["e1"], c["e2"], c["assignment"])
        elif res["inconclusive"]:
            res["status"] = "inconclusive"
            res["detail"] = res["detail"] or "%d z3 'unknown' answers, e.g. %s" % (res["inconclusive"], res["unknown_pairs"][:2])
        else:
            res["status"] = "discharged"
        res["nontrivial_queries"] = res["unsat"] + res["ac_moves_checked"]
        res["paths"] = 0
        res["solver_queries"] = res["queries"]
        from vt.z3enc import expr as _x

        res["solver_time_s"] = round(_x.SOLVER_SECONDS[0], 3)
        _x.SOLVER_SECONDS[0] = 0.0
        res["wall_s"] = round(time.perf_counter() - t0, 2)
        res["functions_entered"] = {"semantiva/metadata/semantic_id.py:normalize_expression_sig_v1": res["programs"], "semantiva/metadata/semantic_id.py:_dump_ast_commutative": res["programs"]}
        if res["sample"] is None:
            res["sample"] = {"universe": "%s(%s)" % (what, arg), "note": "no multi-member class in this shard"}
        res.pop("cex")
        return res

    return run


def _replay(param, c: Dict[str, Any]) -> Dict[str, Any]:
    from semantiva.metadata.semantic_id import normalize_expression_sig_v1
    from semantiva.utils.safe_eval import ExpressionEvaluator

    s1 = normalize_expression_sig_v1(c["e1"])
    s2 = normalize_expression_sig_v1(c["e2"])
    kind = c["kind"]
    if kind == "O2":
        if s1 != s2:
            return {"reproduced": True, "fingerprint": "C12.O2:commuted-forms-differ", "detail": "%s and %s are one AC move apart but have different signatures" % (c["e1"], c["e2"])}
        return {"reproduced": False, "fingerprint": "", "detail": "signatures equal on the real code"}
    ev = ExpressionEvaluator()
    a = c["assignment"]
    names = set(c.get("names") or VARS)
    v1 = ev.compile(c["e1"], names)(**a)
    v2 = ev.compile(c["e2"], names)(**a)
    if s1 == s2 and v1 != v2:
        return {"reproduced": True, "fingerprint": "C12.%s:same-signature-different-value" % kind.split(":")[0], "detail": "%s = %r but %s = %r at %r, same signature %s" % (c["e1"], v1, c["e2"], v2, a, s1["ast"][:120])}
    return {"reproduced": False, "fingerprint": "", "detail": "sig equal=%s values %r %r" % (s1 == s2, v1, v2)}


BIG_CONSTS = [2 ** 31 - 1, 2 ** 31, 2 ** 53 - 1, 2 ** 53, 2 ** 53 + 1, 2 ** 63 - 1, 2 ** 63, 2 ** 64, 2 ** 64 + 1, 10 ** 16, 10 ** 16 + 1]


def obligations(tier: str) -> List[Ob]:
    ns = 16
    if tier == "quick":
        plan = [("U", 5, 400.0), ("NEST", 2, 120.0), ("BIGC", 3, 120.0), ("CMP", 3, 120.0), ("LEX", 3, 60.0), ("RAND", 600, 60.0)]
    else:
        plan = [("U", 5, 1500.0), ("NEST", 2, 300.0), ("NEST", 3, 1500.0), ("BIGC", 3, 300.0), ("CMP", 3, 300.0), ("LEX", 3, 120.0), ("RAND", 6000, 900.0)]
    obs = []
    for what, arg, budget in plan:
        obs.append(
            Ob(
                oid="C12.%s%s" % (what, arg if what != "RAND" else ""),
                make=_make,
                replay=_replay,
                params=[(what, arg, s, ns, budget) for s in range(ns)],
                budget=budget,
                engine="B",
                bound={"U": "all expressions with <= %d AST nodes over leaves {a,b,c,0,1,2,3}, unary -/abs, binary + - * // %% < == min max, **2/**3, if-else; O1 per signature class, O2 all single AC moves, O3 all single-point mutations (<=4 nodes)" % arg,
                       "NEST": "every %s of atoms (7 leaves + all 3-node + * - // expressions over {a,b,2} + -a + abs(b)) joined by + or *: O1 + O2" % ("pair" if arg == 2 else "triple (both bracketings, reduced atom pool)"),
                       "CMP": "all comparisons x op y and chains x op1 y op2 z over {a, b, c, 1} and < <= > >= == != (2400 expressions): O1 per signature class",
                       "LEX": "378 texts over names {p, q, r}: every X if Y else Z (bare, + 1, 1 + (..), abs(..), negated) and every X or Y / X and Y (bare, + 1, abs(..)) next to the identifier its text spells without blanks (pifqelser, porq), both orders of first use in one process: O1 per signature class; encoding validated against the real evaluator on these texts",
                       "BIGC": "all expressions with <= 3 AST nodes over {a, b} and 11 integer constants around 2**31, 2**53, 2**63, 2**64, 10**16: O1 per signature class",
                       "RAND": "%d VERIF_SEED-seeded expressions of 6..11 nodes: O2 moves + up to 12 mutations each (a draw, not a bound)" % arg}[what],
                targets=["semantiva/metadata/semantic_id.py:normalize_expression_sig_v1", "semantiva/metadata/semantic_id.py:_dump_ast_commutative"],
            )
        )
    return obs


def extra_coverage(results):
    progs = sum(int(r.get("programs") or 0) for r in results)
    return {
        "programs": max(progs, 1),
        "disagreements_checked": int(sum(int(r.get("queries") or 0) for r in results)),
        "traces_validated_against_impl": int(sum(int(r.get("conformance_evaluations") or 0) for r in results)),
        "signature_classes": int(sum(int(r.get("classes") or 0) for r in results)),
        "multi_member_classes": int(sum(int(r.get("multi_member_classes") or 0) for r in results)),
        "ac_moves_checked": int(sum(int(r.get("ac_moves_checked") or 0) for r in results)),
        "z3_unsat": int(sum(int(r.get("unsat") or 0) for r in results)),
        "mutations_distinguished_by_signature": int(sum(int(r.get("mutations_distinguished_by_sig") or 0) for r in results)),
        "mutations_proved_semantically_equal": int(sum(int(r.get("mutations_semantically_equal") or 0) for r in results)),
    }
