"""C16 -- every class the factories generate satisfies the framework's own contracts (Engine A).

For each wrapping path (node factory kinds, IO adapters, slicers, sweep wrappers of source / operation / probe,
rename / delete / template processors, a subclassed IO component wrapped before or after its parent) the
component's declared types and keys are PICKED BY SOLVER VARIABLES (input / output type from a 3-type
lattice, created-key set as a bit mask over the alphabet, wrapping order flag); each leaf builds the real
node through the real factory and checks
  P1 mirroring : node.input_data_type / output_data_type / get_created_keys mirror the wrapped processor
                 (sources take no data, sinks and probes pass their input type through), and the processor
                 object inside the node is the adapter/wrapper OF THAT component (types, parameter names);
  P2 catalogue : validate_component(type(node)) and validate_component(type(node.processor)) yield no
                 error-level diagnostic.
The symbolic content is thin here (selectors only; class generation is concrete once they are fixed) -- stated.
"""
from __future__ import annotations

from typing import Any, Dict, List

from vt.props import C04
from vt.runner import Fail, Ob

LEVEL = "model_checking"
ASSUMPTIONS = ["selectors symbolic, class generation concrete per leaf (executed natively)", "harness component templates built on public base classes"]
OUTSIDE = ["with_context_key variants of the model-fitting workflow", "third-party factories"]
KINDS = ["operation", "probe", "data-source", "payload-source", "data-sink", "payload-sink", "slice-operation", "slice-probe", "sweep-source", "sweep-operation", "sweep-probe",
         "context-processor", "rename", "delete", "template", "io-subclass-source", "io-subclass-sink", "sliced-then-probed-pipeline", "io-dual-role", "slice-of-sweep-probe", "context-processor-with-context-key"]
KEYS = ("a", "b", "out")


def setup_symbolic() -> None:
    from vt import lib, stubs

    stubs.apply(("str",))
    lib.register()


class _Spectra:
    """holder of a NESTED data type: its __qualname__ ('_Spectra.Trace') differs from its __name__ ('Trace')"""
    Trace = None


def _types():
    from vt import lib

    if _Spectra.Trace is None:
        class Trace(lib.IntData):
            """nested payload type"""

        Trace.__qualname__ = "_Spectra.Trace"
        _Spectra.Trace = Trace
    return [lib.IntData, lib.OtherData, lib.SubIntData, _Spectra.Trace]


def _mk(kind: str, ti: int, to: int, mask: int, parent_first: bool):
    """Build the component(s) for this scenario and return (node, expectations dict)."""
    from semantiva.data_io import DataSink, DataSource, PayloadSink, PayloadSource
    from semantiva.context_processors import ContextProcessor, ContextType
    from semantiva.data_processors import DataOperation, DataProbe
    from semantiva.data_processors.data_slicer_factory import slice as make_slicer
    from semantiva.data_types import NoDataType
    from semantiva.pipeline import Payload
    from semantiva.pipeline.nodes._pipeline_node_factory import _pipeline_node_factory
    from vt import lib

    T = _types()
    tin, tout = T[ti], T[to]
    keys = [k for i, k in enumerate(KEYS) if (mask >> i) & 1]

    class Op(DataOperation):
        """operation template"""

        @classmethod
        def input_data_type(cls):
            return tin

        @classmethod
        def output_data_type(cls):
            return tout

        @classmethod
        def context_keys(cls):
            return list(keys)

        def _process_logic(self, data, p: int = 1):
            return tout(data.data)

    class OpSame(Op):
        """operation template with equal input/output type (slicable)"""

        @classmethod
        def output_data_type(cls):
            return tin

    class Pr(DataProbe):
        """probe template"""

        @classmethod
        def input_data_type(cls):
            return tin

        def _process_logic(self, data, q: int = 2):
            return data.data

    class Src(DataSource):
        """source template"""

        @classmethod
        def _get_data(cls, value: int = 3):
            return tout(value)

        @classmethod
        def output_data_type(cls):
            return tout

    class Src2(Src):
        """specialised source: other output type and an extra parameter"""

        @classmethod
        def _get_data(cls, value: int = 3, count: int = 2):
            return tin(value)

        @classmethod
        def output_data_type(cls):
            return tin

    class PSrc(PayloadSource):
        """payload source template"""

        @classmethod
        def _get_payload(cls, value: int = 3):
            return Payload(tout(value), ContextType({k: 1 for k in keys}))

        @classmethod
        def _injected_context_keys(cls):
            return list(keys)

        @classmethod
        def output_data_type(cls):
            return tout

    class Snk(DataSink):
        """sink template"""

        @classmethod
        def _send_data(cls, data, tag: int = 0):
            return None

        @classmethod
        def input_data_type(cls):
            return tin

    class Snk2(Snk):
        """specialised sink: other input type"""

        @classmethod
        def _send_data(cls, data, tag: int = 0, mode: int = 1):
            return None

        @classmethod
        def input_data_type(cls):
            return tout

    class Store(DataSource, DataSink):
        """odd but legal: a read/write store, both a source and a sink"""

        @classmethod
        def _get_data(cls, value: int = 3):
            return tout(value)

        @classmethod
        def output_data_type(cls):
            return tout

        @classmethod
        def _send_data(cls, data, tag: int = 0):
            return None

        @classmethod
        def input_data_type(cls):
            return tin

    class PSnk(PayloadSink):
        """payload sink template"""

        @classmethod
        def _send_payload(cls, payload, tag: int = 0):
            return None

        @classmethod
        def input_data_type(cls):
            return tin

    class Cp(ContextProcessor):
        """context processor template"""

        @classmethod
        def get_created_keys(cls):
            return list(keys)

        def _process_logic(self, a: int = 0):
            return None

    class CpKey(ContextProcessor):
        """context processor whose output key can be bound per node through `context_key` (with_context_key protocol)"""

        OUT = "default.key"

        @classmethod
        def with_context_key(cls, key):
            return type("%s_OUT_%s" % (cls.__name__, key.replace(".", "_")), (cls,), {"OUT": key, "__doc__": "bound to %s" % key})

        @classmethod
        def get_created_keys(cls):
            return [cls.OUT] + list(keys)

        def _process_logic(self, a: int = 0):
            self._notify_context_update(self.__class__.OUT, a)

    sweep = lambda extra: {"parameter_sweep": dict({"variables": {"t": {"values": [1, 2]}}}, **extra)}
    E: Dict[str, Any] = {"kind": kind}
    if kind == "operation":
        node = _pipeline_node_factory({"processor": Op, "parameters": {}}, lib.QUIET)
        E.update(inp=tin, out=tout, keys=keys, proc=Op, pnames=["p"])
    elif kind == "probe":
        node = _pipeline_node_factory({"processor": Pr, "context_key": "ck"}, lib.QUIET)
        E.update(inp=tin, out=tin, keys=["ck"], proc=Pr, pnames=["q"])
    elif kind == "data-source":
        node = _pipeline_node_factory({"processor": Src, "parameters": {}}, lib.QUIET)
        E.update(inp=NoDataType, out=tout, keys=[], adapter_of=Src, ad_in=NoDataType, ad_out=tout, pnames=["value"])
    elif kind == "payload-source":
        node = _pipeline_node_factory({"processor": PSrc, "parameters": {}}, lib.QUIET)
        E.update(inp=NoDataType, out=tout, keys=keys, adapter_of=PSrc, ad_in=NoDataType, ad_out=tout, pnames=["value"])
    elif kind == "data-sink":
        node = _pipeline_node_factory({"processor": Snk, "parameters": {}}, lib.QUIET)
        E.update(inp=tin, out=tin, keys=[], adapter_of=Snk, ad_in=tin, ad_out=tin, pnames=["tag"])
    elif kind == "payload-sink":
        node = _pipeline_node_factory({"processor": PSnk, "parameters": {}}, lib.QUIET)
        E.update(inp=tin, out=tin, keys=[], adapter_of=PSnk, ad_in=tin, ad_out=tin, pnames=["tag"])
    elif kind == "slice-operation":
        S = make_slicer(OpSame, lib.IntColl)
        node = _pipeline_node_factory({"processor": S, "parameters": {}}, lib.QUIET)
        E.update(inp=lib.IntColl, out=lib.IntColl, keys=keys, proc=S, pnames=["p"])
    elif kind == "slice-probe":
        S = make_slicer(Pr, lib.IntColl)
        node = _pipeline_node_factory({"processor": S, "context_key": "ck"}, lib.QUIET)
        E.update(inp=lib.IntColl, out=lib.IntColl, keys=["ck"], proc=S, pnames=["q"])
    elif kind == "sweep-source":
        node = _pipeline_node_factory({"processor": Src, "derive": sweep({"parameters": {"value": "t"}, "collection": "IntColl"})}, lib.QUIET)
        E.update(inp=NoDataType, out=lib.IntColl, keys=["t_values"], ad_in=NoDataType, ad_out=lib.IntColl, pnames=[])
    elif kind == "sweep-operation":
        node = _pipeline_node_factory({"processor": Op, "derive": sweep({"parameters": {"p": "t"}, "collection": "IntColl"})}, lib.QUIET)
        E.update(inp=tin, out=lib.IntColl, keys=["t_values"] + keys, pnames=[])
    elif kind == "sweep-probe":
        node = _pipeline_node_factory({"processor": Pr, "derive": sweep({"parameters": {"q": "t"}}), "context_key": "ck"}, lib.QUIET)
        E.update(inp=tin, out=tin, keys=["ck"], pnames=[])
    elif kind == "context-processor":
        node = _pipeline_node_factory({"processor": Cp, "parameters": {}}, lib.QUIET)
        E.update(inp=None, out=None, keys=keys, ctxproc=True)
    elif kind == "rename":
        node = _pipeline_node_factory({"processor": "rename:a:b"}, lib.QUIET)
        E.update(inp=None, out=None, keys=["b"], suppressed=["a"], ctxproc=True)
    elif kind == "delete":
        node = _pipeline_node_factory({"processor": "delete:a"}, lib.QUIET)
        E.update(inp=None, out=None, keys=[], suppressed=["a"], ctxproc=True)
    elif kind == "template":
        node = _pipeline_node_factory({"processor": 'template:"{a}_{b}":out'}, lib.QUIET)
        E.update(inp=None, out=None, keys=["out"], suppressed=[], ctxproc=True)
    elif kind == "io-subclass-source":
        first, second = (Src, Src2) if parent_first else (Src2, Src)
        _pipeline_node_factory({"processor": first, "parameters": {}}, lib.QUIET)
        node = _pipeline_node_factory({"processor": second, "parameters": {}}, lib.QUIET)
        o = second.output_data_type()
        E.update(inp=NoDataType, out=o, keys=[], adapter_of=second, ad_in=NoDataType, ad_out=o, pnames=["value", "count"] if second is Src2 else ["value"])
    elif kind == "io-subclass-sink":
        first, second = (Snk, Snk2) if parent_first else (Snk2, Snk)
        _pipeline_node_factory({"processor": first, "parameters": {}}, lib.QUIET)
        node = _pipeline_node_factory({"processor": second, "parameters": {}}, lib.QUIET)
        i = second.input_data_type()
        E.update(inp=i, out=i, keys=[], adapter_of=second, ad_in=i, ad_out=i, pnames=["tag", "mode"] if second is Snk2 else ["tag"])
    elif kind == "slice-of-sweep-probe":
        # nested wrapping: a slicer around a class the sweep factory generated
        from semantiva.data_processors.parametric_sweep_factory import ParametricSweepFactory, SequenceSpec

        SW = ParametricSweepFactory.create(element=Pr, element_kind="DataProbe", collection_output=None, vars={"t": SequenceSpec([1, 2])}, parametric_expressions={"q": "t"})
        S = make_slicer(SW, lib.IntColl)
        node = _pipeline_node_factory({"processor": S, "context_key": "ck"}, lib.QUIET)
        _ = type(node.processor).get_metadata()  # must be computable (the generated classes are ordinary components)
        E.update(keys=sorted(type(node).get_created_keys()), mirror_only=True, proc=S)
    elif kind == "context-processor-with-context-key":
        node = _pipeline_node_factory({"processor": CpKey, "parameters": {"context_key": "fit.coeff"}}, lib.QUIET)
        E.update(inp=None, out=None, keys=["fit.coeff"] + keys, ctxproc=True, same_keys_as_processor=True)
    elif kind == "io-dual-role":
        # whichever role the framework gives a class that is both a source and a sink, node and wrapped adapter must agree
        node = _pipeline_node_factory({"processor": Store, "parameters": {}}, lib.QUIET)
        E.update(keys=[], mirror_only=True)
    elif kind == "sliced-then-probed-pipeline":
        # nested use: the classes generated for a slicer inside a pipeline (through Pipeline -> orchestrator)
        from semantiva.pipeline import Pipeline

        S = make_slicer(OpSame, lib.IntColl)
        p = Pipeline([{"processor": lib.OpMkColl}, {"processor": S}, {"processor": make_slicer(Pr, lib.IntColl), "context_key": "ck"}], logger=lib.QUIET)
        if tin is lib.IntData or tin is lib.SubIntData or tin is _Spectra.Trace:
            try:
                p.process(Payload(lib.IntData(1), ContextType({})))
            except Exception:  # noqa: BLE001
                pass
        node = _pipeline_node_factory({"processor": S, "parameters": {}}, lib.QUIET)
        E.update(inp=lib.IntColl, out=lib.IntColl, keys=keys, proc=S, pnames=["p"])
    else:
        raise AssertionError(kind)
    return node, E


def _sibling(kind: str) -> None:
    """A later, different configuration that goes through the same wrapping path (different user component, so the
    classes generated for it share qualified names with those generated for the node under test)."""
    from semantiva.data_processors.data_slicer_factory import slice as make_slicer
    from semantiva.pipeline.nodes._pipeline_node_factory import _pipeline_node_factory
    from vt import lib

    sweep = lambda extra: {"parameter_sweep": dict({"variables": {"t": {"values": [1, 2]}}}, **extra)}
    cfgs = {
        "operation": {"processor": lib.OpAdd, "parameters": {}}, "probe": {"processor": lib.PrVal, "context_key": "k2"},
        "data-source": {"processor": lib.SrcV, "parameters": {}}, "payload-source": {"processor": lib.PSrc, "parameters": {}},
        "data-sink": {"processor": lib.Snk, "parameters": {}}, "payload-sink": {"processor": lib.PSnk, "parameters": {}},
        "slice-operation": {"processor": make_slicer(lib.OpAdd, lib.IntColl), "parameters": {}}, "slice-probe": {"processor": make_slicer(lib.PrVal, lib.IntColl), "context_key": "k2"},
        "sweep-source": {"processor": lib.SrcV, "derive": sweep({"parameters": {"value": "t"}, "collection": "IntColl"})},
        "sweep-operation": {"processor": lib.OpAdd, "derive": sweep({"parameters": {"addend": "t"}, "collection": "IntColl"})},
        "sweep-probe": {"processor": lib.PrParam, "derive": sweep({"parameters": {"offset": "t"}}), "context_key": "k2"},
        "context-processor": {"processor": lib.CpSum, "parameters": {}}, "rename": {"processor": "rename:x:y"}, "delete": {"processor": "delete:x"}, "template": {"processor": 'template:"{x}":y'},
        "io-subclass-source": {"processor": lib.SrcD, "parameters": {}}, "io-subclass-sink": {"processor": lib.Snk, "parameters": {}},
        "sliced-then-probed-pipeline": {"processor": make_slicer(lib.OpAddDef, lib.IntColl), "parameters": {}}, "io-dual-role": {"processor": lib.SrcD, "parameters": {}},
        "slice-of-sweep-probe": {"processor": make_slicer(lib.PrVal, lib.IntColl), "context_key": "k2"}, "context-processor-with-context-key": {"processor": lib.CpSum, "parameters": {}},
    }
    _pipeline_node_factory(cfgs[kind], lib.QUIET)


def scenario(kind: str, ti: int, to: int, mask: int, parent_first: bool, later_sibling: bool = False):
    from semantiva.contracts.expectations import validate_component

    try:
        node, E = _mk(kind, ti, to, mask, parent_first)
    except Exception as e:  # noqa: BLE001
        return Fail("C16.P1:%s:generated-class-unusable:%s" % (kind, type(e).__name__), "building the node (or reading the metadata of the class generated for it) raised %r" % (e,))
    if later_sibling:
        _sibling(kind)  # the classes of `node` must still satisfy the catalogue after another node of the kind was generated
    ncls = type(node)
    pcls = type(node.processor)
    # ---- P1 mirroring
    if E.get("mirror_only"):
        ni, no, pi = ncls.input_data_type(), ncls.output_data_type(), pcls.input_data_type()
        po = pcls.output_data_type() if hasattr(pcls, "output_data_type") else ni  # probes have no output type: data passes through
        if ni is not pi:
            return Fail("C16.P1:%s:node-input-vs-wrapped" % kind, "node declares input %s, the processor it wraps declares %s" % (getattr(ni, "__name__", ni), getattr(pi, "__name__", pi)))
        if no is not po and not (pi is not None and no is ni):  # sinks pass their input type through
            return Fail("C16.P1:%s:node-output-vs-wrapped" % kind, "node declares output %s, the processor it wraps declares %s" % (getattr(no, "__name__", no), getattr(po, "__name__", po)))
    elif not E.get("ctxproc"):
        if ncls.input_data_type() is not E["inp"]:
            return Fail("C16.P1:%s:node-input-type" % kind, "node declares input %s, expected %s" % (getattr(ncls.input_data_type(), "__name__", None), E["inp"].__name__))
        if ncls.output_data_type() is not E["out"]:
            return Fail("C16.P1:%s:node-output-type" % kind, "node declares output %s, expected %s" % (getattr(ncls.output_data_type(), "__name__", None), E["out"].__name__))
    if sorted(ncls.get_created_keys()) != sorted(E["keys"]):
        return Fail("C16.P1:%s:node-created-keys" % kind, "node declares created keys %r, expected %r" % (sorted(ncls.get_created_keys()), sorted(E["keys"])))
    if E.get("same_keys_as_processor") and sorted(ncls.get_created_keys()) != sorted(pcls.get_created_keys()):
        return Fail("C16.P1:%s:node-vs-processor-created-keys" % kind, "node class declares created keys %r, the processor instance it runs declares %r" % (sorted(ncls.get_created_keys()), sorted(pcls.get_created_keys())))
    if "suppressed" in E and sorted(ncls.get_suppressed_keys()) != sorted(E["suppressed"]):
        return Fail("C16.P1:%s:node-suppressed-keys" % kind, "node declares suppressed keys %r, expected %r" % (sorted(ncls.get_suppressed_keys()), sorted(E["suppressed"])))
    if "proc" in E and pcls is not E["proc"]:
        return Fail("C16.P1:%s:wrapped-processor" % kind, "node wraps %s, configured %s" % (pcls.__name__, E["proc"].__name__))
    if "ad_in" in E:
        if pcls.input_data_type() is not E["ad_in"] or pcls.output_data_type() is not E["ad_out"]:
            return Fail("C16.P1:%s:adapter-types" % kind, "the adapter inside the node declares %s -> %s, the wrapped component says %s -> %s" % (getattr(pcls.input_data_type(), "__name__", None), getattr(pcls.output_data_type(), "__name__", None), E["ad_in"].__name__, E["ad_out"].__name__))
    if E.get("pnames") is not None and "pnames" in E and not E.get("ctxproc"):
        got = list(pcls.get_processing_parameter_names())
        if E["pnames"] and got != E["pnames"]:
            return Fail("C16.P1:%s:parameter-names" % kind, "processor inside the node exposes parameters %r, the wrapped component has %r" % (got, E["pnames"]))
    # ---- P2 catalogue
    for c, what in ((ncls, "node"), (pcls, "processor")):
        errs = [d for d in validate_component(c) if d.severity == "error"]
        if errs:
            return Fail("C16.P2:%s:%s:%s" % (kind, what, errs[0].code), "%s class %s violates %s: %s" % (what, c.__name__, errs[0].code, errs[0].message[:160]))
    return True


def _make(kind: str):
    def p(ti: int, to: int, mask: int, parent_first: bool, later_sibling: bool):
        from crosshair.tracers import NoTracing
        from vt.engine import assume

        assume(0 <= ti < 4 and 0 <= to < 4 and 0 <= mask < 8)
        cti = next(i for i in range(4) if ti == i)
        cto = next(i for i in range(4) if to == i)
        cm = next(i for i in range(8) if mask == i)
        cpf = True if parent_first else False
        with NoTracing():
            return scenario(kind, cti, cto, cm, cpf, True if later_sibling else False)

    return p


def _replay(kind, a):
    from vt import lib

    lib.register()
    return C04._wrap(scenario(kind, a["ti"], a["to"], a["mask"], a["parent_first"], a.get("later_sibling", False)))


def obligations(tier: str) -> List[Ob]:
    return [
        Ob("C16.P", _make, _replay, params=list(KINDS), budget=600,
           bound="21 wrapping paths (incl. a class that is both source and sink, and slicers around sweep-generated classes); whether a second, different node of the same kind is generated before the catalogue is consulted (flag); input and output type from a 4-type lattice (incl. a nested class whose __qualname__ differs from its __name__), created-key set as a 3-bit mask, wrapping-order flag (subclass before/after parent) - all symbolic selectors; every leaf builds real nodes through the real factories",
           targets=["semantiva/pipeline/nodes/_pipeline_node_factory.py:_pipeline_node_factory", "semantiva/data_processors/io_operation_factory.py:_IOOperationFactory.create_data_operation", "semantiva/data_processors/data_slicer_factory.py:_SlicingDataProcessorFactory.create", "semantiva/data_processors/parametric_sweep_factory.py:ParametricSweepFactory.create", "semantiva/context_processors/factory.py:_context_renamer_factory", "semantiva/contracts/expectations.py:validate_component"], stubs=["str"]),
    ]


def extra_coverage(results):
    return {"wrapping_paths": KINDS, "scenarios_explored": int(sum(int(r.get("paths_reached_assert") or 0) for r in results))}
