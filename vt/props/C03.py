"""C03 -- parameter sweeps expand to exactly the documented element sequence (Engine A).

U1  _iterate_sweep vs. the documented order: 1..3 variables with symbolic lists (length 1..3, symbolic
    elements), mode and broadcast symbolic; whole step list compared; inputs must not be mutated.
U2  _materialize_sequences: SequenceSpec / FromContext with symbolic lists (missing key, empty, string ->
    documented error), RangeSpec linear over an integer-grid table vs. the closed form; `created` is
    exactly {<var>_values: sequence} and is a faithful copy.
U4  _convert_var_specs: symbolic spec-shape selector -> documented mapping / ValueError.
P1  real sweep classes from derive.parameter_sweep through the real Pipeline for the three wrapped kinds:
    element i == wrapped processor applied with computed > node parameters > defaults; typed collection in
    order; probe list under context_key with data passed through; every <var>_values published.
P2  the sweep node inside a surrounding pipeline whose later nodes consume <var>_values and the collection.
"""
from __future__ import annotations

from typing import Optional, Any, Dict, List

from vt.props import C01
from vt.runner import Fail, Ob

LEVEL = "model_checking"
STUBS = C01.STUBS
ASSUMPTIONS = C01.ASSUMPTIONS[:1] + ["sweep expressions from a fixed list of 5, evaluated by the real compiled code under the tracer", "CrossHair 0.0.110 + z3 5.1 models of int/bool/list/dict"]
OUTSIDE = ["log-scale ranges and linear ranges with non-integer grids (numpy.logspace/log10/10**x have no SMT theory) -- stated, not sampled", "more than 3 variables / sequences longer than 3 (thorough: 4)"]

EXPRS = ["t", "2*t + 1", "t + s", "max(t, s)", "s - t"]


def setup_symbolic() -> None:
    C01.setup_symbolic()


def _ref_steps(seqs: Dict[str, List[Any]], by_pos: bool, broadcast: bool):
    """Documented step sequence. Returns list of dicts or 'ValueError'."""
    names = sorted(seqs)
    if by_pos:
        lens = [len(seqs[n]) for n in names]
        if broadcast:
            m = max(lens)
            return [{n: seqs[n][i % len(seqs[n])] for n in names} for i in range(m)]
        for l in lens:
            if l != lens[0]:
                return "ValueError"
        return [{n: seqs[n][i] for n in names} for i in range(lens[0])]
    steps = [{}]
    for n in names:  # leftmost slowest = rightmost fastest
        steps = [dict(st, **{n: v}) for st in steps for v in seqs[n]]
    return steps


# --------------------------------------------------------------------------------------------- U1
def _make_u1(param):
    if isinstance(param, (list, tuple)):
        maxlen, fshape, fnvars = param

        def u1s(a: List[int], b: List[int], c: List[int], by_pos: bool, broadcast: bool):
            return _make_u1(maxlen)(a, b, c, fnvars, by_pos, broadcast, fshape)

        return u1s
    maxlen = param

    def u1(a: List[int], b: List[int], c: List[int], nvars: int, by_pos: bool, broadcast: bool, shape: int = 0):
        from semantiva.data_processors.parametric_sweep_factory import _iterate_sweep
        from vt.engine import assume

        assume(1 <= nvars <= 3 and 0 <= shape <= 2)
        # sweep values need not be scalars: a value may itself be a (equal-length) list or tuple
        # (for those shapes only the LENGTHS stay symbolic: the values are distinct concrete containers)
        if shape != 0:
            assume(len(a) <= maxlen and len(b) <= maxlen and len(c) <= maxlen)
            la, lb, lc = (next(i for i in range(0, maxlen + 1) if len(x) == i) for x in (a, b, c))  # fork on the lengths -> concrete ints
            mk = (lambda u, v: [u, v]) if shape == 1 else (lambda u, v: (u, v))
            a, b, c = [mk(j, 100 + j) for j in range(la)], [mk(10 + j, 110 + j) for j in range(lb)], [mk(20 + j, 120 + j) for j in range(lc)]
        assume(1 <= len(a) <= maxlen and 1 <= len(b) <= maxlen and 1 <= len(c) <= maxlen)
        # insertion order deliberately not sorted: combinatorial order must follow sorted names
        seqs: Dict[str, List[int]] = {"t": list(a)}
        if nvars >= 2:
            seqs = {"t": list(a), "s": list(b)}
        if nvars >= 3:
            seqs = {"t": list(a), "s": list(b), "m": list(c)}
        before = {k: list(v) for k, v in seqs.items()}
        exp = _ref_steps(before, by_pos, broadcast)
        try:
            got = list(_iterate_sweep(seqs, mode="by_position" if by_pos else "combinatorial", broadcast=broadcast))
        except ValueError:
            return True if exp == "ValueError" else Fail("C03.U1:spurious-valueerror", "ValueError for a legal spec")
        if exp == "ValueError":
            return Fail("C03.U1:unequal-lengths-accepted", "by_position without broadcast accepted unequal lengths")
        if len(got) != len(exp):
            return Fail("C03.U1:step-count", "%d steps, documented %d" % (len(got), len(exp)))
        for g, e in zip(got, exp):
            if not (g == e):
                return Fail("C03.U1:step-order:%s" % ("by_position" if by_pos else "combinatorial"), "step %r, documented %r" % (g, e))
        if not (seqs == before):
            return Fail("C03.U1:input-sequences-mutated", "the caller's sequences were modified in place")
        return True

    return u1


def _replay_u1(param, a):
    v = _make_u1(param)(**a)
    if v is True:
        return {"reproduced": False, "fingerprint": "", "detail": "documented order on the concrete input"}
    return {"reproduced": True, "fingerprint": v.fingerprint, "detail": v.detail}


# --------------------------------------------------------------------------------------------- U3
def _u3(in_base_a: bool, in_base_b: bool, in_expr_a: bool, in_expr_b: bool, va: Optional[int], vb: Optional[int], ea: Optional[int], eb: Optional[int]):
    """_merge_call_parameters: computed-by-expression > node-provided, every provided name is passed on WITH ITS VALUE --
    values range over int | None (an explicit None is a value, not an absence)."""
    from semantiva.data_processors.parametric_sweep_factory import _merge_call_parameters

    base: Dict[str, Any] = {}
    if in_base_a:
        base["a"] = va
    if in_base_b:
        base["b"] = vb
    expr: Dict[str, Any] = {}
    if in_expr_a:
        expr["a"] = ea
    if in_expr_b:
        expr["b"] = eb
    before = (dict(base), dict(expr))
    got = _merge_call_parameters(base_kwargs=base, expression_outputs=expr)
    exp = dict(before[0])
    exp.update(before[1])
    if set(got) != set(exp):
        return Fail("C03.U3:merged-names", "merged call parameters have names %r, documented %r" % (sorted(got), sorted(exp)))
    for k in exp:
        g, e = got[k], exp[k]
        if not ((g is None and e is None) if (g is None or e is None) else (g == e)):
            return Fail("C03.U3:merged-value:%s" % k, "parameter %s is not the %s value" % (k, "computed" if k in before[1] else "node-provided"))
    if base != before[0] or expr != before[1]:
        return Fail("C03.U3:inputs-mutated", "the caller's mappings were modified")
    return True


# --------------------------------------------------------------------------------------------- U2
_RANGES = [(0, 4, 5, True), (0, 4, 4, False), (2, 2, 1, True), (1, 7, 3, True), (-3, 3, 7, True), (0, 6, 3, False), (5, 1, 5, True), (0, 10, 1, False)]


def _u2(kind: int, vals: List[int], ridx: int, key_present: bool, as_string: bool):
    from semantiva.data_processors.parametric_sweep_factory import FromContext, RangeSpec, SequenceSpec, _materialize_sequences
    from vt.engine import assume

    assume(0 <= kind <= 2 and len(vals) <= 3 and 0 <= ridx < len(_RANGES))
    params: Dict[str, Any] = {}
    if kind == 0:
        assume(len(vals) >= 1)
        spec: Any = SequenceSpec(list(vals))
        exp: Any = list(vals)
    elif kind == 1:
        spec = FromContext("src")
        if key_present:
            params["src"] = "abc" if as_string else list(vals)
        if not key_present:
            exp = "ValueError"
        elif as_string:
            exp = "TypeError"
        elif len(vals) == 0:
            exp = "ValueError"
        else:
            exp = list(vals)
    else:
        lo, hi, steps, endpoint = _RANGES[ridx]
        spec = RangeSpec(lo=float(lo), hi=float(hi), steps=steps, endpoint=endpoint)
        div = (steps - 1) if endpoint else steps
        exp = [lo + (hi - lo) * i / div if div else float(lo) for i in range(steps)]
    try:
        seqs, created = _materialize_sequences(vars={"x": spec}, params=params)
    except ValueError:
        return True if exp == "ValueError" else Fail("C03.U2:spurious-valueerror", "ValueError for a legal spec")
    except TypeError:
        return True if exp == "TypeError" else Fail("C03.U2:spurious-typeerror", "TypeError for a legal spec")
    if isinstance(exp, str):
        return Fail("C03.U2:error-not-raised:%s" % exp, "documented %s not raised" % exp)
    got = list(seqs["x"])
    if kind == 2:
        if len(got) != len(exp) or any(abs(float(g) - e) > 1e-9 for g, e in zip(got, exp)):
            return Fail("C03.U2:range-values", "range %r materialised as %r, closed form %r" % (_RANGES[ridx], got, exp))
    elif not (got == exp):
        return Fail("C03.U2:sequence-values", "sequence %r, expected %r" % (got, exp))
    if sorted(created) != ["x_values"] or not (list(created["x_values"]) == got):
        return Fail("C03.U2:created-keys", "created %r" % (sorted(created),))
    return True


# --------------------------------------------------------------------------------------------- U4
def _u4(shape: int, n: int, flag: bool):
    from semantiva.data_processors.parametric_sweep_factory import FromContext, RangeSpec, SequenceSpec
    from semantiva.pipeline.node_preprocess import _convert_var_specs
    from vt.engine import assume

    assume(0 <= shape <= 7 and 1 <= n <= 4)
    raw: Any
    if shape == 0:
        raw, exp = [1, 5, 9][:3], ("seq", [1, 5, 9])
    elif shape == 1:
        raw, exp = [n, n + 2], ("range", float(n), float(n + 2), 10, "linear", True)
    elif shape == 2:
        raw, exp = {"lo": 1, "hi": 9, "steps": n, "endpoint": flag}, ("range", 1.0, 9.0, n, "linear", flag)
    elif shape == 3:
        raw, exp = {"values": [n, 7]}, ("seq", [n, 7])
    elif shape == 4:
        raw, exp = {"from_context": "k"}, ("ctx", "k")
    elif shape == 5:
        raw, exp = {"from_context": n}, "ValueError"
    elif shape == 6:
        raw, exp = {"lo": 1, "hi": 2}, "ValueError"
    else:
        raw, exp = n, "ValueError"
    try:
        out = _convert_var_specs({"x": raw})["x"]
    except ValueError:
        return True if exp == "ValueError" else Fail("C03.U4:spurious-valueerror", "legal variable spec rejected")
    if exp == "ValueError":
        return Fail("C03.U4:bad-spec-accepted", "illegal variable spec %r accepted" % (raw,))
    if exp[0] == "seq":
        ok = isinstance(out, SequenceSpec) and list(out.values) == exp[1]
    elif exp[0] == "ctx":
        ok = isinstance(out, FromContext) and out.key == exp[1]
    else:
        ok = isinstance(out, RangeSpec) and (out.lo, out.hi, out.steps, out.scale, out.endpoint) == exp[1:]
    return True if ok else Fail("C03.U4:wrong-mapping", "spec %r converted to %r" % (raw, out))


# --------------------------------------------------------------------------------------------- P1 / P2
def _sweep_node(kind: str, expr: str, tvals, mode_by_pos: bool, broadcast: bool, b_cfg, b_in_cfg: bool, two_vars: bool, extra=None):
    from vt import lib

    variables: Dict[str, Any] = {"t": {"values": list(tvals)}}  # a bare 2-number list is the documented [lo, hi] range shorthand
    if two_vars:
        variables["s"] = {"from_context": "sv"}
    sw: Dict[str, Any] = {"parameters": {}, "variables": variables, "mode": "by_position" if mode_by_pos else "combinatorial", "broadcast": broadcast}
    node: Dict[str, Any] = {"derive": {"parameter_sweep": sw}, "parameters": {}}
    if kind == "op":
        node["processor"] = lib.OpTwo
        sw["parameters"] = {"a": expr}
        sw["collection"] = "IntColl"
        if b_in_cfg:
            node["parameters"]["b"] = b_cfg
    elif kind == "src":
        node["processor"] = lib.SrcV
        sw["parameters"] = {"value": expr}
        sw["collection"] = "IntColl"
    else:
        node["processor"] = lib.PrReq
        sw["parameters"] = {"offset": expr}
        node["context_key"] = "res"
    return node


def _eval_expr(expr: str, t, s):
    return {"t": t, "2*t + 1": 2 * t + 1, "t + s": t + s, "max(t, s)": t if t >= s else s, "s - t": s - t}[expr]


def _make_p1(param):
    kind, eidx, maxlen = param
    expr = EXPRS[eidx]
    two_vars = "s" in expr

    def p1(x: int, tv: List[int], sv: List[int], by_pos: bool, broadcast: bool, b_cfg: int, b_ctx: int, b_in_cfg: bool, b_in_ctx: bool, sv_in_ctx: bool, stale: bool):
        from vt.engine import assume

        assume(1 <= len(tv) <= maxlen and 1 <= len(sv) <= maxlen)
        return _p1_body(kind, expr, two_vars, x, list(tv), list(sv), by_pos, broadcast, b_cfg, b_ctx, b_in_cfg, b_in_ctx, sv_in_ctx, True if stale else False)

    return p1


def _p1_body(kind, expr, two_vars, x, tv, sv, by_pos, broadcast, b_cfg, b_ctx, b_in_cfg, b_in_ctx, sv_in_ctx, stale=False):
    from semantiva.data_types import NoDataType
    from vt import lib

    lib.register()
    node = _sweep_node(kind, expr, tv, by_pos, broadcast, b_cfg, b_in_cfg, two_vars)
    ctx: Dict[str, Any] = {}
    if two_vars and sv_in_ctx:
        ctx["sv"] = list(sv)
    if kind == "op" and b_in_ctx:
        ctx["b"] = b_ctx
    if stale:
        # the context already carries <var>_values from something earlier: the sweep publishes ITS materialised sequence
        ctx["t_values"] = [x, x]
    data = NoDataType() if kind == "src" else lib.IntData(x)
    seqs = {"t": list(tv)}
    if two_vars:
        seqs["s"] = list(sv)
    steps = _ref_steps(seqs, by_pos, broadcast)
    exp_fail = None
    if two_vars and not sv_in_ctx:
        exp_fail = "missing-from-context"
    elif steps == "ValueError":
        exp_fail = "unequal-lengths"
    lib.reset_log()
    try:
        d, c = lib.run_pipeline([node], data, ctx)
    except Exception as e:  # noqa: BLE001
        if exp_fail is None:
            return Fail("C03.P1:%s:raised-unexpected:%s" % (kind, type(e).__name__), "sweep run raised %s: %s" % (type(e).__name__, str(e)[:200]))
        return True
    if exp_fail is not None:
        return Fail("C03.P1:%s:error-not-raised:%s" % (kind, exp_fail), "documented error (%s) not raised" % exp_fail)
    vals = [_eval_expr(expr, st["t"], st.get("s", 0)) for st in steps]
    b = b_cfg if b_in_cfg else (b_ctx if b_in_ctx else 1)
    if kind == "op":
        exp_elems = [x + a - b for a in vals]
        exp_log = [("OpTwo", {"a": a, "b": b}) for a in vals]
    elif kind == "src":
        exp_elems = list(vals)
        exp_log = [("SrcV", {"value": a}) for a in vals]
    else:
        exp_elems = [x + a for a in vals]
        exp_log = [("PrReq", {"offset": a}) for a in vals]
    exp_ctx = dict(ctx)
    exp_ctx["t_values"] = list(tv)
    if two_vars:
        exp_ctx["s_values"] = list(sv)
    if kind == "probe":
        exp_ctx["res"] = exp_elems
        if not (isinstance(d, lib.IntData) and d.data == x):
            return Fail("C03.P1:probe:data-not-passed-through", "probe sweep changed the data")
    else:
        if not isinstance(d, lib.IntColl):
            return Fail("C03.P1:%s:collection-type" % kind, "result is %s, not the declared collection" % type(d).__name__)
        got = [e.data for e in d]
        if len(got) != len(exp_elems):
            return Fail("C03.P1:%s:element-count" % kind, "%d elements, documented %d" % (len(got), len(exp_elems)))
        if not (got == exp_elems):
            return Fail("C03.P1:%s:element-values" % kind, "elements %r, documented %r" % (got, exp_elems))
    if not (list(lib.LOG) == exp_log):
        return Fail("C03.P1:%s:merge-precedence" % kind, "wrapped processor called with %r, documented %r" % (list(lib.LOG), exp_log))
    for k in ("t_values", "s_values"):
        if k in exp_ctx and k not in c:
            return Fail("C03.P1:%s:values-not-published" % kind, "%s not published into the context" % k)
        if k in exp_ctx and not (list(c[k]) == exp_ctx[k]):
            return Fail("C03.P1:%s:values-published-wrong" % kind, "%s published as %r, materialised sequence is %r" % (k, c[k], exp_ctx[k]))
    if kind == "probe" and not (c.get("res") == exp_elems):
        return Fail("C03.P1:probe:result-list", "probe results %r, documented %r" % (c.get("res"), exp_elems))
    extra = {k for k in c if k not in exp_ctx}
    if extra:
        return Fail("C03.P1:%s:unexpected-context-keys" % kind, "unexpected context keys %r" % sorted(extra))
    return True


def _replay_p1(param, a):
    kind, eidx, maxlen = param
    expr = EXPRS[eidx]
    v = _p1_body(kind, expr, "s" in expr, a["x"], list(a["tv"]), list(a["sv"]), a["by_pos"], a["broadcast"], a["b_cfg"], a["b_ctx"], a["b_in_cfg"], a["b_in_ctx"], a["sv_in_ctx"], a.get("stale", False))
    if v is True:
        return {"reproduced": False, "fingerprint": "", "detail": "documented behaviour on the concrete input"}
    return {"reproduced": True, "fingerprint": v.fingerprint, "detail": v.detail}


def _p2(x: int, tv: List[int], add: int, by_pos: bool):
    """[OpAddDef, sweep(op over t), slicer(OpAdd) consuming config, sweep(src) over from_context t_values, OpSum]"""
    from vt.engine import assume

    assume(1 <= len(tv) <= 3)
    return _p2_body(x, list(tv), add, by_pos)


def _p2_body(x, tv, add, by_pos):
    from vt import lib

    lib.register()
    n1 = {"processor": lib.OpAddDef, "parameters": {}}
    n2 = _sweep_node("op", "2*t + 1", tv, by_pos, False, 0, False, False)
    n3 = {"processor": lib.SlAdd, "parameters": {"addend": add}}
    n4 = {"processor": lib.OpSum, "parameters": {}}
    n5 = {"processor": lib.PrVal, "context_key": "total"}
    # a second sweep consuming the first one's published sequence, as a probe under a context key
    n6 = {"processor": lib.PrReq, "derive": {"parameter_sweep": {"parameters": {"offset": "u"}, "variables": {"u": {"from_context": "t_values"}}}}, "context_key": "again"}
    lib.reset_log()
    try:
        d, c = lib.run_pipeline([n1, n2, n3, n4, n5, n6], lib.IntData(x), {})
    except Exception as e:  # noqa: BLE001
        return Fail("C03.P2:raised:%s" % type(e).__name__, "surrounding pipeline raised %s: %s" % (type(e).__name__, str(e)[:200]))
    y = x + 7
    elems = [y + (2 * t + 1) - 1 + add for t in tv]
    total = 0
    for e in elems:
        total = total + e
    if not (isinstance(d, lib.IntData) and d.data == total):
        return Fail("C03.P2:data", "final data differs from the documented fold")
    if not (c.get("t_values") is not None and list(c["t_values"]) == tv):
        return Fail("C03.P2:t_values", "t_values %r, sequence %r" % (c.get("t_values"), tv))
    if not (c.get("total") == total):
        return Fail("C03.P2:probe", "probe stored %r" % (c.get("total"),))
    if not (c.get("again") == [total + t for t in tv]):
        return Fail("C03.P2:downstream-sweep", "sweep over from_context t_values produced %r" % (c.get("again"),))
    return True


def obligations(tier: str) -> List[Ob]:
    big = tier == "thorough"
    ml = 4 if big else 3
    R = C01._replay_simple
    p1_params = [(k, e, 2 if not big else 3) for k in ("op", "src", "probe") for e in range(len(EXPRS))]
    return [
        Ob("C03.U1", _make_u1, _replay_u1, params=[(ml, sh, nv) for sh in (0, 1, 2) for nv in (1, 2, 3)], budget=300 if not big else 1500, bound="1..3 variables, each a symbolic list of length 1..%d with symbolic elements (scalars, 2-lists or 2-tuples by a symbolic selector); mode and broadcast symbolic; whole step list compared; inputs unmodified" % ml, targets=["semantiva/data_processors/parametric_sweep_factory.py:_iterate_sweep"]),
        Ob("C03.U2", lambda _p: _u2, R(_u2), budget=240, bound="SequenceSpec/FromContext with symbolic lists (len<=3; missing key, empty, string); RangeSpec linear over 8 integer-grid cases vs closed form", targets=["semantiva/data_processors/parametric_sweep_factory.py:_materialize_sequences"]),
        Ob("C03.U3", lambda _p: _u3, R(_u3), budget=120, bound="two parameter names, each present/absent in node-provided and computed mappings (4 flags), values symbolic over int | None", targets=["semantiva/data_processors/parametric_sweep_factory.py:_merge_call_parameters"]),
        Ob("C03.U4", lambda _p: _u4, R(_u4), budget=120, bound="8 variable-spec shapes (list, [lo,hi], {lo,hi,steps,endpoint}, {values}, {from_context}, 3 illegal) with symbolic numbers", targets=["semantiva/pipeline/node_preprocess.py:_convert_var_specs"]),
        Ob("C03.P1", _make_p1, _replay_p1, params=p1_params, budget=600 if not big else 1800, per_path=60,
           bound="3 wrapped kinds x 5 expressions; payload, sequences t (config) and s (from_context) symbolic lists of length 1..%d, mode/broadcast symbolic, non-swept parameter b placed by symbolic flags in config/context/default, from_context key present or not, a stale t_values already in the context or not" % (2 if not big else 3),
           targets=["semantiva/data_processors/parametric_sweep_factory.py:ParametricSweepFactory.create", "semantiva/pipeline/node_preprocess.py:preprocess_node_config", "semantiva/data_processors/parametric_sweep_factory.py:_merge_call_parameters", "semantiva/data_processors/parametric_sweep_factory.py:_publish_created_context", "semantiva/utils/safe_eval.py:ExpressionEvaluator.compile"], stubs=list(STUBS)),
        Ob("C03.P2", lambda _p: _p2, lambda _p, a: _wrap(_p2_body(a["x"], list(a["tv"]), a["add"], a["by_pos"])), budget=400, per_path=60,
           bound="6-node pipeline around an operation sweep (slicer, fold, probe, downstream probe-sweep over from_context t_values); payload, sequence (len 1..3), slicer parameter symbolic", targets=["semantiva/pipeline/nodes/nodes.py:_DataNode._process_single_item_with_context"], stubs=list(STUBS)),
    ]


def _wrap(v):
    if v is True:
        return {"reproduced": False, "fingerprint": "", "detail": "documented behaviour on the concrete input"}
    return {"reproduced": True, "fingerprint": v.fingerprint, "detail": v.detail}


def extra_coverage(results):
    from vt import stubs

    return {"stubs": stubs.described(STUBS)}
