"""C09 -- a run-space launch equals its independent runs and is linked by stable IDs (Engine A + injective-hash model).

P1  spec id, two paths: inspect (_compute_run_space_spec_id on the raw block) vs CLI/trace
    (RunSpaceIdentityService on asdict(parse(raw block))) for symbolic blocks with optional fields
    present/absent by symbolic flags.
P2  spec id invariant under key order (symbolic permutation), different for single-point mutations of the
    plan; launch id from an idempotency key is a function of (basis, key) only and keeps the attempt;
    inputs id changes exactly when the referenced file's digest changes (symbolic digest strings).
P3  launch = independent runs: real cli._run with a run space of 1..3 runs (symbolic count), symbolic context
    values, a failing run at a symbolic index, launch-id option and attempt symbolic: one run_space_start / one
    run_space_end with truthful planned/completed, every pipeline_start carries launch id, attempt, 0-based
    index and its context; runs in plan order, none after a failure; component log and SER parameters of run i
    equal those of a standalone Pipeline.process on run i's context, for all values.
"""
from __future__ import annotations

from typing import Any, Dict, List

from vt import idcfg, ihash
from vt.props import C04
from vt.runner import Fail, Ob

LEVEL = "model_checking"
STUBS = C04.STUBS + ("repr",)
ASSUMPTIONS = C04.ASSUMPTIONS[:1] + ["CLI driven in-process through cli._run(Namespace) with the stubs listed under coverage.stubs (argparse and YAML files outside)", "CrossHair 0.0.110 + z3 5.1 models"]
OUTSIDE = ["generated (uuid7/uuid4) launch ids beyond 'present and shared by all records'", "file/directory trace output modes (C06 covers the JSONL driver)", "launches of more than 3 runs"]


def setup_symbolic() -> None:
    from vt import cliharness

    from vt import stubs

    C04.setup_symbolic()
    stubs.apply(("repr",))
    cliharness.install()


def _block(vals, flags, perm=None):
    """Raw run_space mapping as YAML would give it; optional fields by flags."""
    perm = perm or {}
    ctx = idcfg.perm_dict({"value": [vals[0], vals[1]], "fire": [0, 0]}, perm.get("ctx", 0))
    b0: Dict[str, Any] = {"mode": "by_position", "context": ctx}
    rs: Dict[str, Any] = {"blocks": [b0]}
    if flags[0]:
        rs["combine"] = "combinatorial"
    if flags[1]:
        rs["max_runs"] = vals[2]
    if flags[2]:
        rs["dry_run"] = False
    if len(rs) >= 3:
        rs = idcfg.perm_dict(rs, perm.get("rs", 0))
    return rs


def _spec_ids(raw):
    from dataclasses import asdict

    from semantiva.configurations.load_pipeline_from_yaml import _parse_run_space_block
    from semantiva.inspection.builder import _compute_run_space_spec_id
    from semantiva.trace.runtime.run_space_identity import RunSpaceIdentityService

    insp = _compute_run_space_spec_id(raw)
    cli = RunSpaceIdentityService().compute(asdict(_parse_run_space_block(raw)), base_dir=None).spec_id
    return insp, cli


def _p1(a: int, b: int, m: int, f0: bool, f1: bool, f2: bool):
    from vt.engine import assume

    assume(1 <= m <= 50)
    return _p1_body([a, b, m], [f0, f1, f2])


def _p1_body(vals, flags):
    if ihash.INSTALLED:
        ihash.reset()
    insp, cli = _spec_ids(_block(vals, flags))
    if not (insp == cli):
        missing = [n for n, f in zip(("combine", "max_runs", "dry_run"), flags) if not f]
        return Fail("C09.P1:inspect-vs-trace-spec-id", "run-space spec id shown by inspect differs from the one the CLI puts in the trace (fields left to their defaults in the YAML block: %s)" % (missing or "none - the block also lacks 'source'"))
    return True


_ALPHA = "a\n\r\x0c\u2028 "


def _p1s(s: str, t: str, f0: bool, f1: bool, f2: bool):
    """string-valued plan entries: both paths must canonicalise line endings identically, and two strings that are
    different after the DOCUMENTED canonicalisation (CRLF / CR -> LF, nothing else) must give different spec ids."""
    from vt.engine import assume

    assume(len(s) <= 2 and len(t) <= 2)
    assume(all(c in _ALPHA for c in s) and all(c in _ALPHA for c in t))
    return _p1s_body(s, t, [f0, f1, f2])


def _make_p1s(param):
    f0, f1, f2 = param

    def p1s(s: str, t: str):
        return _p1s(s, t, f0, f1, f2)

    return p1s


def _canon(x: str) -> str:
    out = []
    i = 0
    while i < len(x):
        if x[i] == "\r":
            out.append("\n")
            if i + 1 < len(x) and x[i + 1] == "\n":
                i += 1
        else:
            out.append(x[i])
        i += 1
    return "".join(out)


def _p1s_body(s, t, flags):
    if ihash.INSTALLED:
        ihash.reset()
    i1, c1 = _spec_ids(_block([s, "x", 7], flags))
    i2, c2 = _spec_ids(_block([t, "x", 7], flags))
    if not (i1 == c1):
        return Fail("C09.P1s:inspect-vs-trace-spec-id:string", "spec id of inspect and trace differ for the string value %r" % (s,))
    same = _canon(s) == _canon(t)
    if same != bool(c1 == c2):
        return Fail("C09.P1s:trace-spec-id-vs-string-content", "trace spec ids %s although the values %r / %r are %s after line-ending canonicalisation" % ("equal" if c1 == c2 else "differ", s, t, "equal" if same else "different"))
    if same != bool(i1 == i2):
        return Fail("C09.P1s:inspect-spec-id-vs-string-content", "inspect spec ids %s although the values %r / %r are %s after line-ending canonicalisation" % ("equal" if i1 == i2 else "differ", s, t, "equal" if same else "different"))
    return True


def _p2(a: int, b: int, m: int, p_rs: int, p_ctx: bool, mut: int, w: int):
    from vt.engine import assume

    assume(1 <= m <= 50 and 0 <= p_rs < 4 and 0 <= mut <= 5 and w != a and w != m and w != 0)
    return _p2_body([a, b, m], p_rs, p_ctx, mut, w)


def _p2_body(vals, p_rs, p_ctx, mut, w):
    if ihash.INSTALLED:
        ihash.reset()
    flags = [True, True, True]
    ref = _block(vals, flags)
    i0, c0 = _spec_ids(ref)
    i1, c1 = _spec_ids(_block(vals, flags, {"rs": p_rs, "ctx": 1 if p_ctx else 0}))
    if not (i0 == i1):
        return Fail("C09.P2:spec-id-key-order:inspect", "inspect spec id changes with the key order of the run_space block")
    if not (c0 == c1):
        return Fail("C09.P2:spec-id-key-order:trace", "trace spec id changes with the key order of the run_space block")
    mutated = _block(vals, flags)
    name = ["value", "combine", "max_runs", "block-mode", "key-name", "extra-block"][mut]
    if mut == 0:
        mutated["blocks"][0]["context"]["value"] = [w, vals[1]]
    elif mut == 1:
        mutated["combine"] = "by_position"
    elif mut == 2:
        mutated["max_runs"] = w if w > 0 else 51
        if mutated["max_runs"] == vals[2]:
            return True
    elif mut == 3:
        mutated["blocks"][0]["mode"] = "combinatorial"
    elif mut == 4:
        ctx = mutated["blocks"][0]["context"]
        ctx["value2"] = ctx.pop("value")
    else:
        mutated["blocks"].append({"mode": "by_position", "context": {"z": [1, 2]}})
    i2, c2 = _spec_ids(mutated)
    if i2 == i0:
        return Fail("C09.P2:spec-id-insensitive:inspect:%s" % name, "inspect spec id unchanged although %s of the plan differs" % name)
    if c2 == c0:
        return Fail("C09.P2:spec-id-insensitive:trace:%s" % name, "trace spec id unchanged although %s of the plan differs" % name)
    return True


_KEYS = ("k", "key-2", "k ")


def _p2b(k1: int, k2: int, basis_inputs: bool, attempt: int, mode: int):
    from vt.engine import assume

    assume(0 <= k1 < 3 and 0 <= k2 < 3 and 1 <= attempt <= 3 and 0 <= mode <= 2)
    return _p2b_body(_KEYS[k1], _KEYS[k2], basis_inputs, attempt, mode)


def _p2b_body(key1, key2, basis_inputs, attempt, mode):
    from semantiva.trace.runtime.run_space_launch import RunSpaceLaunchManager

    if ihash.INSTALLED:
        ihash.reset()
    m = RunSpaceLaunchManager()
    spec, inputs = "specid", ("inputsid" if basis_inputs else None)
    kw = dict(run_space_spec_id=spec, run_space_inputs_id=inputs, attempt=attempt)
    if mode == 0:
        l1 = m.create_launch(provided_launch_id="explicit-" + key1, **kw)
        if l1.id != "explicit-" + key1:
            return Fail("C09.P2b:explicit-launch-id-not-kept", "explicit launch id replaced")
    elif mode == 1:
        l1 = m.create_launch(idempotency_key=key1, **kw)
        l1b = RunSpaceLaunchManager().create_launch(idempotency_key=key1, **kw)
        l2 = m.create_launch(idempotency_key=key2, **kw)
        if not (l1.id == l1b.id):
            return Fail("C09.P2b:idempotency-key-not-reproducible", "same idempotency key, different launch ids")
        if key1 != key2 and l1.id == l2.id:
            return Fail("C09.P2b:idempotency-key-collision", "different idempotency keys give one launch id")
        l3 = m.create_launch(idempotency_key=key1, run_space_spec_id="otherspec", run_space_inputs_id=("otherinputs" if basis_inputs else None), attempt=attempt)
        if l3.id == l1.id:
            return Fail("C09.P2b:idempotency-ignores-basis", "launch id does not depend on the spec/inputs id")
    else:
        l1 = m.create_launch(**kw)
        if not l1.id:
            return Fail("C09.P2b:no-generated-id", "no launch id generated")
    if l1.attempt != attempt:
        return Fail("C09.P2b:attempt-lost:%s" % ["explicit", "idempotency", "generated"][mode], "launch created for attempt %r reports attempt %r" % (attempt, l1.attempt))
    return True


def _p2c(d1: str, d2: str):
    from vt.engine import assume

    assume(len(d1) <= 3 and len(d2) <= 3)
    return _p2c_body(d1, d2)


def _p2c_body(d1, d2):
    import os
    import tempfile

    from semantiva.trace.runtime.run_space_identity import RunSpaceIdentityService

    if ihash.INSTALLED:
        ihash.reset()
    from vt.props import C08

    path = os.path.join(C08._ensure_scratch(), "src.csv")
    spec = {"combine": "combinatorial", "max_runs": 5, "dry_run": False, "blocks": [{"mode": "by_position", "context": {}, "source": {"format": "csv", "path": path, "select": None, "rename": {}, "mode": "by_position"}}]}
    out = []
    for d in (d1, d2, d1):
        svc = RunSpaceIdentityService()
        svc._sha256_file = lambda p, _d=d: _d  # the file's content digest is the symbolic input
        out.append(svc.compute(spec, base_dir=None))
    if not (out[0].spec_id == out[1].spec_id):
        return Fail("C09.P2c:spec-id-depends-on-file-content", "spec id changes with file content")
    if out[0].inputs_id is None:
        return Fail("C09.P2c:no-inputs-id", "no inputs id although a file is referenced")
    if not (out[0].inputs_id == out[2].inputs_id):
        return Fail("C09.P2c:inputs-id-unstable", "same file content, different inputs id")
    if (d1 == d2) != (out[0].inputs_id == out[1].inputs_id):
        return Fail("C09.P2c:inputs-id-vs-content", "inputs id %s although the content digest %s" % ("unchanged" if out[0].inputs_id == out[1].inputs_id else "changed", "changed" if d1 != d2 else "is the same"))
    return True


# file contents that differ from one another in ways a text-mode or decoding reader would not see
_CONTENTS = (b"x,y\n1,2\n", b"x,y\r1,2\r", b"x,y\r\n1,2\r\n", b"x,y\n1,3\n", b"x,y\n1,2", b"", b"x,y\n\xff,2\n", b"x,y\n1,2\n\x00")


def _p2d(i: int, j: int):
    from crosshair.tracers import NoTracing
    from vt.engine import assume

    n = len(_CONTENTS)
    assume(0 <= i < n and 0 <= j < n)
    ci, cj = next(x for x in range(n) if i == x), next(x for x in range(n) if j == x)
    with NoTracing():
        return _p2d_body(ci, cj)


def _p2d_body(i, j):
    """the REAL file digest: the inputs id of a run space referencing a file changes exactly when the file's BYTES change."""
    import os

    from semantiva.trace.runtime.run_space_identity import RunSpaceIdentityService
    from vt.props import C08

    if ihash.INSTALLED:
        ihash.reset()
    base = C08._ensure_scratch()
    ids = []
    for k in (i, j):
        path = os.path.join(base, "p2d-%d-%d.csv" % (os.getpid(), k))
        with open(path, "wb") as fh:
            fh.write(_CONTENTS[k])
        spec = {"combine": "combinatorial", "max_runs": 5, "dry_run": False, "blocks": [{"mode": "by_position", "context": {}, "source": {"format": "csv", "path": path, "select": None, "rename": {}, "mode": "by_position"}}]}
        # the path is part of the fingerprint: compare digests of the files, which is what must follow the content
        svc = RunSpaceIdentityService()
        try:
            ids.append(svc._sha256_file(__import__("pathlib").Path(path)))
        except Exception as e:  # noqa: BLE001
            return Fail("C09.P2d:file-digest-raises", "digest of a legal source file with bytes %r raised %r" % (_CONTENTS[k], e))
    same = _CONTENTS[i] == _CONTENTS[j]
    if same != bool(ids[0] == ids[1]):
        return Fail("C09.P2d:file-digest-vs-bytes", "file digests %s although the bytes %r / %r %s" % ("equal" if ids[0] == ids[1] else "differ", _CONTENTS[i], _CONTENTS[j], "are equal" if same else "differ"))
    return True


# --------------------------------------------------------------------------------------------- P3
def _nodes():
    from vt import lib

    return [
        {"processor": lib.SrcV, "parameters": {}},
        {"processor": lib.OpAdd, "parameters": {}},
        {"processor": lib.OpAcc, "parameters": {"acc": {"class": "vt.lib.Acc", "kwargs": {}}}},  # a stateful helper object built from a descriptor: every run gets its own
        {"processor": lib.OpBoom, "parameters": {}},
        {"processor": lib.PrVal, "context_key": "res"},
        {"processor": "rename:extra:moved"},  # consumes (removes) a key that only --context supplies: every run needs its own copy
        {"processor": lib.Snk, "parameters": {}},
    ]


def _make_p3(param):
    n, idmode, attempt = param[:3]
    warm = bool(param[3]) if len(param) > 3 else False

    def p3(x0: int, x1: int, x2: int, f0: bool, f1: bool, f2: bool, addend: int, collide: bool):
        return _p3_body(n, [x0, x1, x2], [f0, f1, f2], addend, idmode, attempt, warm, True if collide else False)

    return p3


def _ser_view(ser):
    p = ser.processor
    return (p.get("ref"), dict(p.get("parameters") or {}), dict(p.get("parameter_sources") or {}), sorted(ser.context_delta.created_keys), sorted(ser.context_delta.updated_keys), ser.status)


def _p3_body(n, xs, fs, addend, idmode, attempt, warm=False, collide=False):
    from vt import cliharness, lib
    from vt.memtrace import MemTrace

    lib.register()
    cliharness.install()
    fires = [1 if f else 0 for f in fs]
    config = {"pipeline": {"nodes": _nodes()}, "run_space": {"combine": "combinatorial", "max_runs": 10, "blocks": [{"mode": "by_position", "context": {"value": xs[:n], "fire": fires[:n]}}]}}
    tr = MemTrace()
    flags: Dict[str, Any] = {"run_space_attempt": attempt}
    if idmode == 0:
        flags["run_space_launch_id"] = "launch-explicit"
    elif idmode == 1:
        flags["run_space_idempotency_key"] = "idem-key"
    cli_ctx = {"addend": addend, "extra": addend + 7}
    if collide:
        # --context also names a key the run space plans: run i must still execute with, and record, run i's planned value
        # (the property: 'run i produces the same result ... as a standalone run given run i's context')
        cli_ctx["value"] = addend + 1000
    if warm:
        # history: the identical launch (same launch id / idempotency key, same attempt) already ran once in this process;
        # the launch under test must be bracketed and linked exactly like a first one
        cliharness.run_cli(config, trace=MemTrace(), ctx=dict(cli_ctx), **flags)
    lib.reset_log()
    rc = cliharness.run_cli(config, trace=tr, ctx=dict(cli_ctx), **flags)
    cli_log = list(lib.LOG)
    # ---- reference: independent runs, in plan order, stopping after the first failing run
    first_fail = None
    for i in range(n):
        if fires[i]:
            first_fail = i
            break
    n_exec = n if first_fail is None else first_fail + 1
    exp_rc = 0 if first_fail is None else 4
    if rc != exp_rc:
        return Fail("C09.P3:exit-code", "exit code %r, expected %r (planned %d, first failing run %r)" % (rc, exp_rc, n, first_fail))
    recs = tr.records
    starts = [r for r in recs if r["record_type"] == "run_space_start"]
    ends = [r for r in recs if r["record_type"] == "run_space_end"]
    pstarts = [r for r in recs if r["record_type"] == "pipeline_start"]
    if len(starts) != 1 or len(ends) != 1:
        return Fail("C09.P3:launch-bracket", "%d run_space_start and %d run_space_end records" % (len(starts), len(ends)))
    if recs[0]["record_type"] != "run_space_start" or recs[-1]["record_type"] != "run_space_end":
        return Fail("C09.P3:launch-bracket-position", "run_space_start/end do not bracket the launch")
    skw, ekw = starts[0]["kw"], ends[0]["kw"]
    launch_id = skw.get("run_space_launch_id")
    if idmode == 0 and launch_id != "launch-explicit":
        return Fail("C09.P3:explicit-launch-id", "explicit launch id not used")
    if not launch_id:
        return Fail("C09.P3:no-launch-id", "no launch id")
    if skw.get("run_space_attempt") != attempt or ekw.get("run_space_attempt") != attempt:
        return Fail("C09.P3:attempt:run_space_records", "run_space_start/end carry attempt %r/%r, launched with %r" % (skw.get("run_space_attempt"), ekw.get("run_space_attempt"), attempt))
    if ekw.get("run_space_launch_id") != launch_id:
        return Fail("C09.P3:launch-id-mismatch", "run_space_end names another launch")
    if skw.get("run_space_planned_run_count") != n or skw.get("run_space_total_runs") != n:
        return Fail("C09.P3:planned-count", "run_space_start planned %r, plan has %d" % (skw.get("run_space_planned_run_count"), n))
    summ = ekw.get("summary") or {}
    if summ.get("planned_runs") != n or summ.get("completed_runs") != (n_exec if first_fail is None else first_fail):
        return Fail("C09.P3:completed-count", "run_space_end says planned %r completed %r; truth %d / %d" % (summ.get("planned_runs"), summ.get("completed_runs"), n, n_exec if first_fail is None else first_fail))
    if len(pstarts) != n_exec:
        return Fail("C09.P3:runs-executed", "%d runs started, expected %d (none after a failed run)" % (len(pstarts), n_exec))
    for i, ps in enumerate(pstarts):
        kw = ps["kw"]
        if kw.get("run_space_launch_id") != launch_id:
            return Fail("C09.P3:pipeline_start:launch-id", "pipeline_start %d lacks the launch id" % i)
        if kw.get("run_space_attempt") != attempt:
            return Fail("C09.P3:attempt:pipeline_start", "pipeline_start %d carries attempt %r, launched with %r" % (i, kw.get("run_space_attempt"), attempt))
        if kw.get("run_space_index") != i:
            return Fail("C09.P3:pipeline_start:index", "pipeline_start %d carries index %r" % (i, kw.get("run_space_index")))
        exp_ctx = {"addend": addend, "extra": addend + 7, "value": xs[i], "fire": fires[i]}
        if not (kw.get("run_space_context") == exp_ctx):
            return Fail("C09.P3:pipeline_start:context", "pipeline_start %d carries context %r, run %d's context is %r" % (i, kw.get("run_space_context"), i, exp_ctx))
    # ---- run i == standalone run on run i's context
    ser_by_run: List[List[Any]] = []
    cur = None
    for r in recs:
        if r["record_type"] == "pipeline_start":
            cur = []
            ser_by_run.append(cur)
        elif r["record_type"] == "ser" and cur is not None:
            cur.append(_ser_view(r["ser"]))
    alone_log: List[Any] = []
    for i in range(n_exec):
        t2 = MemTrace()
        lib.reset_log()
        from semantiva.data_types import NoDataType

        try:
            lib.run_pipeline(_nodes(), NoDataType(), {"addend": addend, "extra": addend + 7, "value": xs[i], "fire": fires[i]}, trace=t2)
        except Exception:  # noqa: BLE001
            pass
        alone_log += list(lib.LOG)
        alone_sers = [_ser_view(r["ser"]) for r in t2.records if r["record_type"] == "ser"]
        if not (ser_by_run[i] == alone_sers):
            return Fail("C09.P3:run-differs-from-standalone:ser", "SER content of run %d in the launch differs from a standalone run on the same context" % i)
    if not (cli_log == alone_log):
        return Fail("C09.P3:run-differs-from-standalone:components", "components/parameters executed by the launch %r differ from the independent runs %r" % (cli_log, alone_log))
    return True


def _R(fn, keys):
    def rp(_p, a):
        return C04._wrap(fn(*[a[k] for k in keys]))

    return rp


def obligations(tier: str) -> List[Ob]:
    from vt import cliharness

    return [
        Ob("C09.P1", lambda _p: _p1, lambda _p, a: C04._wrap(_p1_body([a["a"], a["b"], a["m"]], [a["f0"], a["f1"], a["f2"]])), budget=300,
           bound="run_space block with 2 symbolic context values, max_runs symbolic 1..50, optional fields combine/max_runs/dry_run present by 3 symbolic flags",
           targets=["semantiva/inspection/builder.py:_compute_run_space_spec_id", "semantiva/trace/runtime/run_space_identity.py:RunSpaceIdentityService._rscf_v1", "semantiva/configurations/load_pipeline_from_yaml.py:_parse_run_space_block"], stubs=["injective-hash model"]),
        Ob("C09.P1s", _make_p1s, lambda p, a: C04._wrap(_p1s_body(a["s"], a["t"], list(p))), budget=900, per_path=60, params=[(a, b, c) for a in (False, True) for b in (False, True) for c in (False, True)],
           bound="two symbolic strings of length <= 2 over the alphabet {a, LF, CR, FF, U+2028, space} as plan values; one obligation per combination of the 3 optional fields",
           targets=["semantiva/inspection/builder.py:_compute_run_space_spec_id", "semantiva/trace/runtime/run_space_identity.py:RunSpaceIdentityService._rscf_v1"], stubs=["injective-hash model"]),
        Ob("C09.P2", lambda _p: _p2, lambda _p, a: C04._wrap(_p2_body([a["a"], a["b"], a["m"]], a["p_rs"], a["p_ctx"], a["mut"], a["w"])), budget=600,
           bound="key order of the block (4 rotations) and of its context mapping symbolic; 6 single-point mutations (context value, combine, max_runs, block mode, key name, extra block) with symbolic values",
           targets=["semantiva/inspection/builder.py:_compute_run_space_spec_id", "semantiva/trace/runtime/run_space_identity.py:RunSpaceIdentityService.compute"], stubs=["injective-hash model"]),
        Ob("C09.P2b", lambda _p: _p2b, lambda _p, a: C04._wrap(_p2b_body(_KEYS[a["k1"]], _KEYS[a["k2"]], a["basis_inputs"], a["attempt"], a["mode"])), budget=600,
           bound="idempotency keys chosen by symbolic indices from a 3-entry table (hashing a symbolic string would realise it), basis spec/inputs flag, attempt 1..3, launch-id option {explicit, idempotency key, generated} symbolic",
           targets=["semantiva/trace/runtime/run_space_launch.py:RunSpaceLaunchManager.create_launch"], stubs=["injective-hash model"]),
        Ob("C09.P2c", lambda _p: _p2c, lambda _p, a: C04._wrap(_p2c_body(a["d1"], a["d2"])), budget=300,
           bound="content digest of the referenced file = symbolic strings d1, d2 (len <= 3) through a stubbed _sha256_file", targets=["semantiva/trace/runtime/run_space_identity.py:RunSpaceIdentityService._rsm_v1_bytes"], stubs=["injective-hash model", "_sha256_file -> symbolic digest"]),
        Ob("C09.P2d", lambda _p: _p2d, lambda _p, a: C04._wrap(_p2d_body(a["i"], a["j"])), budget=300,
           bound="real _sha256_file on real files: two contents picked by symbolic indices from 8 byte strings (LF / CR / CRLF variants, one differing cell, missing final newline, empty, invalid UTF-8, trailing NUL)",
           targets=["semantiva/trace/runtime/run_space_identity.py:RunSpaceIdentityService._sha256_file"], stubs=["injective-hash model"]),
        Ob("C09.P3", _make_p3, lambda p, a: C04._wrap(_p3_body(p[0], [a["x0"], a["x1"], a["x2"]], [a["f0"], a["f1"], a["f2"]], a["addend"], p[1], p[2], bool(p[3]) if len(p) > 3 else False, a.get("collide", False))), budget=900, per_path=120,
           params=[(n, i, at) for n in (1, 2, 3) for i in (0, 1, 2) for at in (1, 2, 3)] + [(2, i, at, True) for i in (0, 1, 2) for at in (1, 2)],
           bound="real cli._run, one obligation per (n runs in 1..3, launch-id option, attempt): per-run context values and shared --context value symbolic, --context optionally naming a planned key too (flag), failing run chosen by 3 symbolic flags; 6 extra obligations repeat the identical launch after it already ran once in the process; launch-id option (explicit / idempotency key / generated) and attempt 1..3 symbolic; 7-node pipeline (incl. a node whose parameter is a stateful object built from a descriptor, and a rename that consumes a --context-only key)",
           targets=["semantiva/cli/__init__.py:_run", "semantiva/trace/runtime/run_space_emitter.py:RunSpaceTraceEmitter.emit_start", "semantiva/trace/runtime/run_space_emitter.py:RunSpaceTraceEmitter.emit_end", "semantiva/pipeline/pipeline.py:Pipeline.set_run_metadata", "semantiva/execution/orchestrator/orchestrator.py:SemantivaOrchestrator.execute"], stubs=list(STUBS) + cliharness.STUBS),
    ]


def extra_coverage(results):
    from vt import cliharness, stubs

    return {"stubs": stubs.described(STUBS) + cliharness.STUBS}
