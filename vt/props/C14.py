"""C14 -- the in-memory transport delivers every message exactly once, in channel order.

Schedules are the symbolic variables.  The real transport module runs on real threads under a deterministic
line-level scheduler (vt/linesched.py: every line of in_memory.py is a preemption point, including the line of
the defaultdict factory lambda -- the window of the lazy queue creation).  A schedule is
   (initial thread, preemption_1 = (step k1, target t1), ..., preemption_P = (kP, tP))
with all components symbolic integers: the running thread continues until it finishes or would block (then
the lowest-numbered enabled thread continues, no choice involved), except that at global step k_j the
scheduler switches to thread t_j if it is enabled.  CrossHair/z3 exhaust the decision tree over these
integers, i.e. EVERY schedule with at most P preemptions at line granularity is executed on the real code
(the run of each leaf is native; the solver supplies and exhausts the schedule space -- stated as such).

Checked after all threads finished and a final sequential drain:  delivered (+) drained == published as
multisets (no loss, no duplicate), per (publishing thread, channel) order preserved within each consumer,
every delivery matches its subscription's pattern.

DESIGN planned a z3 transition-relation encoding generated from the module's AST (Engine B-sched).  It was
replaced by this schedule-symbolic execution of the real code: it needs no heap model and no idiom table, is
tied to the source by construction, and replays are the same run with the schedule fixed.  What is lost: the
solver does not reason about the schedule space symbolically (no pruning of equivalent interleavings).
"""
from __future__ import annotations

from typing import Any, Dict, List, Tuple

from vt.props import C04
from vt.runner import Fail, Ob

LEVEL = "model_checking"
ASSUMPTIONS = [
    "preemption only at line events of semantiva/execution/transport/in_memory.py (CPython may switch between any two bytecodes; finer windows are outside)",
    "the C-level part of defaultdict.__missing__ (store after the factory returned) is atomic, which holds under the GIL",
    "a thread parked on `with <lock>:` while the lock is held is treated as not enabled",
]
OUTSIDE = ["bytecode-level preemption finer than line events", "the callback thread of subscribe(callback=...)", "__aiter__", "more than P preemptions (quick 2, thorough 3)"]
FILES = ("semantiva/execution/transport/in_memory.py",)

# scenario -> list of thread programs; ("pub", channel, [payloads]) | ("sub", pattern)
SCENARIOS: Dict[str, List[Tuple]] = {
    "2pub-new-channel": [("pub", "jobs.1", ["a1"]), ("pub", "jobs.1", ["b1"])],
    "2pub-new-channel-2msgs": [("pub", "jobs.1", ["a1", "a2"]), ("pub", "jobs.1", ["b1"])],
    "2pub-existing-channel": [("pub", "old", ["a1", "a2"]), ("pub", "old", ["b1"])],
    "pub-new+sub-wildcard": [("pub", "jobs.1", ["a1", "a2"]), ("sub", "jobs.*")],
    "pub-existing+sub-exact": [("pub", "old", ["a1", "a2"]), ("sub", "old")],
    "2pub+sub-wildcard": [("pub", "jobs.1", ["a1"]), ("pub", "jobs.2", ["b1"]), ("sub", "jobs.*")],
    "pub-other+sub-exact": [("pub", "jobs.1", ["a1"]), ("pub", "other", ["b1"]), ("sub", "jobs.1")],
    "3pub-two-channels": [("pub", "jobs.1", ["a1"]), ("pub", "jobs.1", ["b1"]), ("pub", "jobs.2", ["c1"])],
    "pub+2sub": [("pub", "jobs.1", ["a1", "a2"]), ("sub", "jobs.*"), ("sub", "jobs.1")],
}


def run_scenario(name: str, choose, record: Dict[str, Any]):
    """Real threads over the real transport under the line scheduler. Returns True or Fail."""
    from fnmatch import fnmatch

    from semantiva.context_processors import ContextType
    from semantiva.execution.transport.in_memory import InMemorySemantivaTransport
    from vt.linesched import HarnessStall, LineScheduler

    prog = SCENARIOS[name]
    tr = InMemorySemantivaTransport()
    if any(p[1] == "old" for p in prog if p[0] == "pub"):
        tr.publish("old", ("pre", "old", "x"), ContextType({}))  # make the channel exist, then drain it
        list(tr.subscribe("old"))
    published: List[Tuple[int, str, str]] = []
    delivered: Dict[int, List[Any]] = {}
    ls = LineScheduler(FILES)
    for i, p in enumerate(prog):
        if p[0] == "pub":
            def pub(i=i, p=p):
                for payload in p[2]:
                    tr.publish(p[1], (i, p[1], payload), ContextType({}))
            for payload in p[2]:
                published.append((i, p[1], payload))
            ls.add(pub)
        else:
            delivered[i] = []

            def sub(i=i, p=p):
                for msg in tr.subscribe(p[1]):
                    delivered[i].append(msg.data)
            ls.add(sub)
    try:
        sched = ls.run(choose)
    except HarnessStall:
        ls.abort()
        raise
    record["schedule"] = sched
    record["lines"] = list(ls.trace_log)
    for w in ls.workers:
        if w.error is not None:
            return Fail("C14:%s:thread-raised:%s" % (name, type(w.error).__name__), "thread %d raised %r under schedule %r" % (w.tid, w.error, sched))
    drained = [m.data for m in tr.subscribe("*")]
    got = [d for lst in delivered.values() for d in lst] + drained
    if sorted(got) != sorted(published):
        lost = [p for p in published if got.count(p) < published.count(p)]
        dup = [g for g in set(got) if got.count(g) > published.count(g)]
        kind = "lost" if lost else "duplicated"
        return Fail("C14:%s:%s" % (name, kind), "published %r; delivered+drained %r (%s %r) under schedule %r" % (published, got, kind, lost or dup, sched))
    for consumer in list(delivered.values()) + [drained]:
        for (tid, ch) in {(t, c) for (t, c, _) in published}:
            seq = [pl for (t, c, pl) in consumer if t == tid and c == ch]
            exp = [pl for (t, c, pl) in published if t == tid and c == ch and pl in seq]
            if seq != exp:
                return Fail("C14:%s:reordered" % name, "messages of thread %d on %s received as %r, published as %r (schedule %r)" % (tid, ch, seq, exp, sched))
    for i, lst in delivered.items():
        pat = prog[i][1]
        for (t, ch, pl) in lst:
            if not fnmatch(ch, pat):
                return Fail("C14:%s:pattern-mismatch" % name, "subscription %r received a message of channel %r" % (pat, ch))
    return True


def _policy(nthreads: int, first: int, pre: List[Tuple[int, int]]):
    """Schedule policy from (initial thread, [(step, target)...]) -- concrete ints."""
    state = {"cur": first, "used": 0}

    def choose(enabled: List[int], k: int) -> int:
        cur = state["cur"]
        j = state["used"]
        if j < len(pre) and pre[j][0] == k:
            state["used"] = j + 1
            t = pre[j][1]
            if t in enabled and t != cur:
                state["cur"] = t
                return t
        if cur not in enabled:
            cur = enabled[0]
            state["cur"] = cur
        return cur

    return choose


def _make(param):
    name, P, maxsteps, first_fixed, t1_fixed = param
    n = len(SCENARIOS[name])

    def body(k1: int, k2: int, t2: int, k3: int, t3: int):
        from crosshair.tracers import NoTracing
        from vt.engine import assume

        first, t1 = first_fixed, t1_fixed
        ks, ts = [k1, k2, k3][:P], [t1, t2, t3][:P]
        prev = -1
        pre: List[Tuple[int, int]] = []
        cfirst = next(i for i in range(n) if first == i)
        for k, t in zip(ks, ts):
            # a preemption beyond the end of the run is the same schedule as "no more preemptions": canonical k == maxsteps
            assume(prev < k <= maxsteps and 0 <= t < n)
            ck = next(i for i in range(prev + 1, maxsteps + 1) if k == i)
            if ck == maxsteps:
                assume(t == 0)
            ct = next(i for i in range(n) if t == i)
            pre.append((ck, ct))
            prev = ck if ck < maxsteps else maxsteps - 1
        with NoTracing():
            rec: Dict[str, Any] = {}
            v = run_scenario(name, _policy(n, cfirst, pre), rec)
            steps = len(rec.get("schedule", []))
            if v is True and steps > maxsteps:
                return Fail("C14:%s:harness-step-bound" % name, "run took %d steps, bound %d: preemption points beyond the bound were not explored" % (steps, maxsteps))
            return v

    return body


def _replay(param, a):
    name, P, maxsteps, first_fixed, t1_fixed = param
    n = len(SCENARIOS[name])
    a = dict(a, first=first_fixed, t1=t1_fixed)
    pre = [(a["k%d" % (i + 1)], a["t%d" % (i + 1)]) for i in range(P)]
    rec: Dict[str, Any] = {}
    v = run_scenario(name, _policy(n, a["first"], pre), rec)
    if v is True:
        return {"reproduced": False, "fingerprint": "", "detail": "exactly-once delivery under the concrete schedule %r" % (rec.get("schedule"),)}
    return {"reproduced": True, "fingerprint": v.fingerprint, "detail": v.detail + " | line trace (thread, line): %r" % (rec.get("lines"),)}


def _steps(name: str) -> int:
    """Upper bound on the number of scheduler steps of a scenario, measured on the current source by a
    sequential run (round-robin does not add line events)."""
    rec: Dict[str, Any] = {}
    run_scenario(name, lambda en, k: en[0], rec)
    a = len(rec["schedule"])
    rec2: Dict[str, Any] = {}
    run_scenario(name, lambda en, k: en[-1], rec2)
    return max(a, len(rec2["schedule"])) + 6


def obligations(tier: str) -> List[Ob]:
    P = 2 if tier == "quick" else 3
    names = list(SCENARIOS) if tier == "thorough" else ["2pub-new-channel", "2pub-existing-channel", "pub-new+sub-wildcard", "pub-existing+sub-exact", "2pub+sub-wildcard", "pub-other+sub-exact"]
    params = []
    for nm in names:
        st = _steps(nm)
        n = len(SCENARIOS[nm])
        for first in range(n):
            for t1 in range(n):
                params.append((nm, P, st, first, t1))
    return [
        Ob("C14.S", _make, _replay, params=params, budget=1500 if tier == "quick" else 6000, per_path=60,
           bound="per scenario (2-3 publishers with 1-2 messages, 0-2 concurrent subscribers, new and existing channels, exact and wildcard patterns): initial thread and up to P=%d preemptions (global step index and target thread) symbolic; step bound measured from the source + 6" % P,
           targets=["semantiva/execution/transport/in_memory.py:InMemorySemantivaTransport.publish", "semantiva/execution/transport/in_memory.py:InMemorySubscription.__iter__", "semantiva/execution/transport/in_memory.py:InMemorySemantivaTransport.__init__"]),
    ]


def extra_coverage(results):
    return {"schedules_executed": int(sum(int(r.get("paths_reached_assert") or 0) for r in results)), "scenarios": {k: v for k, v in SCENARIOS.items()},
            "states": max(1, int(sum(int(r.get("paths_reached_assert") or 0) for r in results))), "transitions": max(1, int(sum(int(r.get("paths") or 0) for r in results))), "traces_validated_against_impl": int(sum(int(r.get("paths_reached_assert") or 0) for r in results))}
