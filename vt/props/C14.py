"""C14 -- the in-memory transport delivers every message exactly once, in channel order.

Schedules are the symbolic variables.  The real transport module runs on real threads under a deterministic
line-level scheduler (vt/linesched.py: every line of in_memory.py is a preemption point, including the line of
the defaultdict factory lambda -- the window of the lazy queue creation).  A schedule is
   (initial thread, preemption_1 = (step k1, target t1), ..., preemption_P = (kP, tP))
with all components symbolic integers: the running thread continues until it finishes or would block (then
the lowest-numbered enabled thread continues, no choice involved), except that at global step k_j the
scheduler switches to thread t_j if it is enabled.  CrossHair/z3 exhaust the decision tree over these
integers, i.e. EVERY schedule with at most P preemptions at line granularity is executed on the real code
(the run of each leaf is native; the solver supplies and exhausts the schedule space -- stated as such).

Checked after all threads finished and a final sequential drain:  delivered (+) drained == published as
multisets (no loss, no duplicate), per (publishing thread, channel) order preserved within each consumer,
every delivery matches its subscription's pattern.

C14.B (Engine B-sched, vt/z3enc/sched.py) is the z3 transition-relation encoding DESIGN planned: publish(), the
defaultdict factory, subscribe() and InMemorySubscription.__iter__ are compiled from the module's AST into a CFG of
line events over a small explicit heap; the schedule is a free z3 variable per step, so the solver decides the
property over ALL interleavings at line granularity within the step bound (no preemption bound), after an
unwinding query showed that every schedule finishes within the bound.  On every run the encoding is validated
against the real transport (5 fixed scheduling policies per scenario: the model driven by the real run's schedule
must show the same (thread, line) trace, deliveries and remaining queue contents), and a z3 counterexample is
replayed on the real threads by feeding its schedule to the line scheduler.  A construct outside the translator's
subset, or a conformance mismatch, makes the obligation inconclusive.

C14.S (the first built) executes the real code under every schedule with at most P preemptions, the schedule
integers being CrossHair/z3 variables; it needs no heap model and serves as a second, independent decision
procedure on the same scenarios (each leaf is a native run: the solver only supplies and exhausts the schedule
space -- stated as such).
"""
from __future__ import annotations

from typing import Any, Dict, List, Tuple

from vt.props import C04
from vt.runner import Fail, Ob

LEVEL = "model_checking"
ASSUMPTIONS = [
    "preemption only at line events of semantiva/execution/transport/in_memory.py (CPython may switch between any two bytecodes; finer windows are outside)",
    "the C-level part of defaultdict.__missing__ (store after the factory returned) is atomic, which holds under the GIL",
    "a thread parked on `with <lock>:` while the lock is held is treated as not enabled",
]
OUTSIDE = ["bytecode-level preemption finer than line events", "the callback thread of subscribe(callback=...) in C14.B (C14.S runs it as a scheduled worker in the cb-* scenarios)", "__aiter__", "C14.S: more than P preemptions (quick 2, thorough 3); C14.B: runs longer than the step bound K (excluded by the unwinding query), scenarios other than the listed ones"]
FILES = ("semantiva/execution/transport/in_memory.py",)

# scenario -> list of thread programs; ("pub", channel, [payloads]) | ("sub", pattern)
SCENARIOS: Dict[str, List[Tuple]] = {
    "2pub-new-channel": [("pub", "jobs.1", ["a1"]), ("pub", "jobs.1", ["b1"])],
    "2pub-new-channel-2msgs": [("pub", "jobs.1", ["a1", "a2"]), ("pub", "jobs.1", ["b1"])],
    "2pub-existing-channel": [("pub", "old", ["a1", "a2"]), ("pub", "old", ["b1"])],
    "pub-new+sub-wildcard": [("pub", "jobs.1", ["a1", "a2"]), ("sub", "jobs.*")],
    "pub-existing+sub-exact": [("pub", "old", ["a1", "a2"]), ("sub", "old")],
    "2pub+sub-wildcard": [("pub", "jobs.1", ["a1"]), ("pub", "jobs.2", ["b1"]), ("sub", "jobs.*")],
    "pub-other+sub-exact": [("pub", "jobs.1", ["a1"]), ("pub", "other", ["b1"]), ("sub", "jobs.1")],
    "3pub-two-channels": [("pub", "jobs.1", ["a1"]), ("pub", "jobs.1", ["b1"]), ("pub", "jobs.2", ["c1"])],
    "pub+2sub": [("pub", "jobs.1", ["a1", "a2"]), ("sub", "jobs.*"), ("sub", "jobs.1")],
    # two consumers competing for messages that are already queued ("pre" entries are published before the threads start)
    "2sub-prefilled": [("pre", "jobs.1", ["p1", "p2", "p3"]), ("sub", "jobs.*"), ("sub", "jobs.1")],
    "2sub-prefilled-1msg": [("pre", "jobs.1", ["p1"]), ("sub", "jobs.1"), ("sub", "jobs.1")],
    # a publisher that returns to the channel it used last while another publisher uses a different channel
    "2pub-two-channels-repeat": [("pub", "jobs.a", ["a0", "a1"]), ("pub", "jobs.b", ["b0"])],
}


# callback subscriptions: ("cbrun", pattern) is the body of the thread that subscribe(pattern, callback=...) starts (the
# subscribe call itself is made in the set-up phase with in_memory.threading.Thread replaced by a capturing shim, so that
# the runner becomes a worker of the line scheduler instead of a free-running thread); ("close", j) calls close() on the
# subscription object of program j.  Only C14.S runs these (the C14.B translator does not model closures/threads).
CB_SCENARIOS = ("cb-runner+close-prefilled", "cb-runner+close+pub")
SCENARIOS["cb-runner+close-prefilled"] = [("pre", "jobs.1", ["p1", "p2"]), ("cbrun", "jobs.1"), ("close", 0)]
SCENARIOS["cb-runner+close+pub"] = [("pre", "jobs.1", ["p1"]), ("cbrun", "jobs.*"), ("close", 0), ("pub", "jobs.1", ["c1"])]


def _threads(name: str) -> List[Tuple]:
    return [p for p in SCENARIOS[name] if p[0] != "pre"]


def run_scenario(name: str, choose, record: Dict[str, Any]):
    """Real threads over the real transport under the line scheduler. Returns True or Fail."""
    from fnmatch import fnmatch

    from semantiva.context_processors import ContextType
    from semantiva.execution.transport.in_memory import InMemorySemantivaTransport
    from vt.linesched import HarnessStall, LineScheduler

    pres = [p for p in SCENARIOS[name] if p[0] == "pre"]
    prog = _threads(name)
    tr = InMemorySemantivaTransport()
    if any(p[1] == "old" for p in prog if p[0] == "pub"):
        tr.publish("old", ("pre", "old", "x"), ContextType({}))  # make the channel exist, then drain it
        list(tr.subscribe("old"))
    published: List[Tuple[int, str, str]] = []
    for p in pres:
        for payload in p[2]:
            tr.publish(p[1], (-1, p[1], payload), ContextType({}))
            published.append((-1, p[1], payload))
    delivered: Dict[int, List[Any]] = {}
    ls = LineScheduler(FILES)
    subs: Dict[int, Any] = {}
    for i, p in enumerate(prog):
        if p[0] == "cbrun":
            import threading as _real_threading
            import types

            import semantiva.execution.transport.in_memory as _im

            delivered[i] = []
            captured: List[Any] = []

            class _CapturedThread:
                def __init__(self, target=None, daemon=None, **kw):
                    captured.append(target)

                def start(self):
                    pass

            shim = types.SimpleNamespace(**{k: getattr(_real_threading, k) for k in ("Lock", "RLock", "Event", "Condition", "Semaphore", "current_thread", "get_ident")})
            shim.Thread = _CapturedThread
            saved = _im.threading
            _im.threading = shim
            try:
                subs[i] = tr.subscribe(p[1], callback=lambda msg, i=i: delivered[i].append(msg.data))
            finally:
                _im.threading = saved
            if len(captured) != 1 or not callable(captured[0]):
                raise RuntimeError("harness: subscribe(callback=...) did not start exactly one thread (got %r)" % (captured,))
            ls.add(captured[0])
        elif p[0] == "close":
            ls.add(lambda j=p[1]: subs[j].close())
        elif p[0] == "pub":
            def pub(i=i, p=p):
                for payload in p[2]:
                    tr.publish(p[1], (i, p[1], payload), ContextType({}))
            for payload in p[2]:
                published.append((i, p[1], payload))
            ls.add(pub)
        else:
            delivered[i] = []

            def sub(i=i, p=p):
                for msg in tr.subscribe(p[1]):
                    delivered[i].append(msg.data)
            ls.add(sub)
    try:
        sched = ls.run(choose)
    except HarnessStall:
        ls.abort()
        raise
    record["schedule"] = sched
    record["lines"] = list(ls.trace_log)
    for w in ls.workers:
        if w.error is not None:
            return Fail("C14:%s:thread-raised:%s" % (name, type(w.error).__name__), "thread %d raised %r under schedule %r" % (w.tid, w.error, sched))
    # final sequential drain, channel by channel with the exact channel name as pattern (then "*" for anything else)
    all_channels = []
    for p in SCENARIOS[name]:
        if p[0] in ("pub", "pre") and p[1] not in all_channels:
            all_channels.append(p[1])
    # first a fresh subscription per subscriber pattern (a message queued on a matching channel must reach a subscription
    # on that pattern opened after it was published), then the exact channel names, then "*"
    sub_patterns = list(dict.fromkeys(p[1] for p in prog if p[0] in ("sub", "cbrun")))
    redrained: Dict[str, List[Any]] = {pat: [m.data for m in tr.subscribe(pat)] for pat in sub_patterns}
    exact: Dict[str, List[Any]] = {ch: [m.data for m in tr.subscribe(ch)] for ch in all_channels}
    for pat in sub_patterns:
        for d in redrained[pat]:
            if not fnmatch(d[1], pat):
                return Fail("C14:%s:pattern-mismatch" % name, "a fresh subscription %r received a message of channel %r" % (pat, d[1]))
        for ch in all_channels:
            if fnmatch(ch, pat) and exact[ch]:
                return Fail("C14:%s:stranded" % name, "after all threads finished a fresh subscribe(%r) left %r queued on matching channel %r (only subscribe(%r) found them); schedule %r" % (pat, exact[ch], ch, ch, sched))
    drained_by: Dict[str, List[Any]] = {ch: [d for pat in sub_patterns for d in redrained[pat] if d[1] == ch] + exact[ch] for ch in all_channels}
    drained_by["*"] = [m.data for m in tr.subscribe("*")]
    drained = [d for ch in list(all_channels) + ["*"] for d in drained_by[ch]]
    record["delivered"] = {i: list(v) for i, v in delivered.items()}
    record["drained"] = list(drained)
    record["drained_by"] = {k: list(v) for k, v in drained_by.items()}
    for ch in all_channels:
        for d in exact[ch]:
            if d[1] != ch:
                return Fail("C14:%s:misrouted" % name, "subscribe(%r) yielded %r, a message published to %r (schedule %r)" % (ch, d, d[1], sched))
    got = [d for lst in delivered.values() for d in lst] + drained
    if sorted(got) != sorted(published):
        lost = [p for p in published if got.count(p) < published.count(p)]
        dup = [g for g in set(got) if got.count(g) > published.count(g)]
        kind = "lost" if lost else "duplicated"
        return Fail("C14:%s:%s" % (name, kind), "published %r; delivered+drained %r (%s %r) under schedule %r" % (published, got, kind, lost or dup, sched))
    for consumer in list(delivered.values()) + [drained]:
        for (tid, ch) in {(t, c) for (t, c, _) in published}:
            seq = [pl for (t, c, pl) in consumer if t == tid and c == ch]
            exp = [pl for (t, c, pl) in published if t == tid and c == ch and pl in seq]
            if seq != exp:
                return Fail("C14:%s:reordered" % name, "messages of thread %d on %s received as %r, published as %r (schedule %r)" % (tid, ch, seq, exp, sched))
    for i, lst in delivered.items():
        pat = prog[i][1]
        for (t, ch, pl) in lst:
            if not fnmatch(ch, pat):
                return Fail("C14:%s:pattern-mismatch" % name, "subscription %r received a message of channel %r" % (pat, ch))
    return True


def _policy(nthreads: int, first: int, pre: List[Tuple[int, int]]):
    """Schedule policy from (initial thread, [(step, target)...]) -- concrete ints."""
    state = {"cur": first, "used": 0}

    def choose(enabled: List[int], k: int) -> int:
        cur = state["cur"]
        j = state["used"]
        if j < len(pre) and pre[j][0] == k:
            state["used"] = j + 1
            t = pre[j][1]
            if t in enabled and t != cur:
                state["cur"] = t
                return t
        if cur not in enabled:
            cur = enabled[0]
            state["cur"] = cur
        return cur

    return choose


def _make(param):
    name, P, maxsteps, first_fixed, t1_fixed = param
    n = len(_threads(name))

    def body(k1: int, k2: int, t2: int, k3: int, t3: int):
        from crosshair.tracers import NoTracing
        from vt.engine import assume

        first, t1 = first_fixed, t1_fixed
        ks, ts = [k1, k2, k3][:P], [t1, t2, t3][:P]
        prev = -1
        pre: List[Tuple[int, int]] = []
        cfirst = next(i for i in range(n) if first == i)
        for k, t in zip(ks, ts):
            # a preemption beyond the end of the run is the same schedule as "no more preemptions": canonical k == maxsteps
            assume(prev < k <= maxsteps and 0 <= t < n)
            ck = next(i for i in range(prev + 1, maxsteps + 1) if k == i)
            if ck == maxsteps:
                assume(t == 0)
            ct = next(i for i in range(n) if t == i)
            pre.append((ck, ct))
            prev = ck if ck < maxsteps else maxsteps - 1
        with NoTracing():
            rec: Dict[str, Any] = {}
            v = run_scenario(name, _policy(n, cfirst, pre), rec)
            steps = len(rec.get("schedule", []))
            if v is True and steps > maxsteps:
                return Fail("C14:%s:harness-step-bound" % name, "run took %d steps, bound %d: preemption points beyond the bound were not explored" % (steps, maxsteps))
            return v

    return body


def _replay(param, a):
    name, P, maxsteps, first_fixed, t1_fixed = param
    n = len(_threads(name))
    a = dict(a, first=first_fixed, t1=t1_fixed)
    pre = [(a["k%d" % (i + 1)], a["t%d" % (i + 1)]) for i in range(P)]
    rec: Dict[str, Any] = {}
    v = run_scenario(name, _policy(n, a["first"], pre), rec)
    if v is True:
        return {"reproduced": False, "fingerprint": "", "detail": "exactly-once delivery under the concrete schedule %r" % (rec.get("schedule"),)}
    return {"reproduced": True, "fingerprint": v.fingerprint, "detail": v.detail + " | line trace (thread, line): %r" % (rec.get("lines"),)}


def _steps(name: str) -> int:
    """Upper bound on the number of scheduler steps of a scenario, measured on the current source by a
    sequential run (round-robin does not add line events)."""
    rec: Dict[str, Any] = {}
    run_scenario(name, lambda en, k: en[0], rec)
    a = len(rec["schedule"])
    rec2: Dict[str, Any] = {}
    run_scenario(name, lambda en, k: en[-1], rec2)
    return max(a, len(rec2["schedule"])) + 6



# ------------------------------------------------------------------------------------------------------------
# Engine B-sched: z3 over ALL interleavings of the transition relation generated from the module's AST
# ------------------------------------------------------------------------------------------------------------
def _model_threads(name: str):
    """scenario -> (threads for the encoding, channel universe, pre-existing channels, message ids -> data tuple)."""
    prog = _threads(name)
    pres = [p for p in SCENARIOS[name] if p[0] == "pre"]
    channels: List[str] = []
    for p in pres + prog:
        if p[0] in ("pub", "pre") and p[1] not in channels:
            channels.append(p[1])
    pre = [c for c in channels if (c == "old" and _preexists_after_setup()) or any(q[1] == c for q in pres)]
    channels = pre + [c for c in channels if c not in pre]
    threads, ids = [], {}
    premsgs: Dict[str, List[int]] = {}
    for p in pres:
        for payload in p[2]:
            mid = 90 + len(ids)
            ids[mid] = (-1, p[1], payload)
            premsgs.setdefault(p[1], []).append(mid)
    _model_threads.premsgs = premsgs
    for i, p in enumerate(prog):
        if p[0] == "pub":
            calls = []
            for j, payload in enumerate(p[2]):
                mid = 10 * i + j + 1
                ids[mid] = (i, p[1], payload)
                calls.append((channels.index(p[1]), mid))
            threads.append(("pub", calls))
        else:
            threads.append(("sub", p[1]))
    return threads, channels, pre, ids


def _preexists_after_setup() -> bool:
    """run_scenario publishes to 'old' and drains it before the threads start: does the channel entry survive that on
    the current source?  (read off the real transport, so the model's initial heap is the real one)"""
    from semantiva.context_processors import ContextType
    from semantiva.execution.transport.in_memory import InMemorySemantivaTransport

    tr = InMemorySemantivaTransport()
    tr.publish("old", ("pre", "old", "x"), ContextType({}))
    list(tr.subscribe("old"))
    return "old" in tr._queues


def _attrs_after_setup(name: str, attr_names) -> Dict[str, Any]:
    """plain instance attributes of the transport after the scenario's set-up phase (read off the real object), as
    ("none",) | ("bool", v) | ("chan", channel) | ("pair", channel whose (deque, lock) entry it is)."""
    from semantiva.context_processors import ContextType
    from semantiva.execution.transport.in_memory import InMemorySemantivaTransport

    tr = InMemorySemantivaTransport()
    if any(p[1] == "old" for p in _threads(name) if p[0] == "pub"):
        tr.publish("old", ("pre", "old", "x"), ContextType({}))
        list(tr.subscribe("old"))
    for p in SCENARIOS[name]:
        if p[0] == "pre":
            for payload in p[2]:
                tr.publish(p[1], (-1, p[1], payload), ContextType({}))
    out: Dict[str, Any] = {}
    for a in attr_names:
        v = getattr(tr, a, None)
        if v is None:
            out[a] = ("none",)
        elif isinstance(v, bool):
            out[a] = ("bool", v)
        elif isinstance(v, str):
            out[a] = ("chan", v)
        elif isinstance(v, tuple) and len(v) == 2:
            ch = [c for c, e in tr._queues.items() if e[0] is v[0]]
            out[a] = ("pair", ch[0]) if ch else ("unknown",)
        else:
            out[a] = ("unknown",)
    return out


def _real_outcome(rec, ids, channels):
    inv = {v: k for k, v in ids.items()}
    logs = {i: [inv[d] for d in lst] for i, lst in rec["delivered"].items()}
    rem = {}
    for ch, lst in rec["drained_by"].items():
        for d in lst:
            rem.setdefault(ch, []).append(inv[d])
    return logs, rem


def _encode(name: str, K: int):
    import semantiva.execution.transport.in_memory as im
    from vt.z3enc import sched as S

    threads, channels, pre, ids = _model_threads(name)
    nmsg = len(ids)
    facts = S.ModuleFacts(im.__file__)
    B = S.Bounds(len(channels), len(pre) + nmsg + 1, len(facts.instance_locks) + len(pre) + nmsg + 1, nmsg + 1, nmsg + 1)
    enc = S.Encoding(facts, threads, channels, pre, B, premsgs=getattr(_model_threads, "premsgs", {}), init_attrs=_attrs_after_setup(name, sorted(facts.transport_attrs)))
    enc.unroll(K)
    return enc, ids, channels


CONF_POLICIES = {
    "lowest-enabled": lambda en, k: en[0],
    "highest-enabled": lambda en, k: en[-1],
    "round-robin": lambda en, k: en[k % len(en)],
    "switch-every-2": lambda en, k: en[(k // 2) % len(en)],
    "switch-every-3": lambda en, k: en[(k // 3) % len(en)],
}


def _make_b(param):
    name = param

    def run(known_fps):
        import time

        import z3

        from vt.linesched import HarnessStall
        from vt.z3enc import sched as S

        t0 = time.perf_counter()
        res: Dict[str, Any] = {"status": "inconclusive", "queries": 0, "detail": "", "paths": 0, "sample": None, "conformance_runs": 0}
        # 1. real runs under fixed policies: step bound and conformance material
        reals = []
        try:
            for pn, pol in CONF_POLICIES.items():
                rec: Dict[str, Any] = {}
                v = run_scenario(name, pol, rec)
                if v is not True:
                    # the real code already fails under a fixed schedule: report it through the ordinary replay path
                    res.update(status="refuted", counterexample={"scenario": name, "schedule": rec.get("schedule")}, fingerprint=v.fingerprint, detail="fixed policy %s: %s" % (pn, v.detail))
                    return res
                reals.append((pn, rec))
        except HarnessStall as e:
            res["detail"] = "line scheduler stalled on the real code (%s): no conformance material" % e
            return res
        K = max(len(r["schedule"]) for _, r in reals) + 4
        # 2. translate + unroll (fail closed)
        try:
            enc, ids, channels = _encode(name, K)
            # 3. conformance: the model, driven by the real run's schedule, must show the same (thread, line) trace and outcome
            for pn, rec in reals:
                sch = rec["schedule"]
                cons = [enc.sched[k] == sch[k] for k in range(len(sch))] + [enc.all_done(len(sch))]
                r, m = enc.check(*cons)
                if r != "sat":
                    res["detail"] = "conformance: the model cannot follow the real schedule of policy %s (%s): %r / real lines %r" % (pn, r, sch, rec["lines"])
                    return res
                tr = enc.trace_of(m)
                logs, rem = _real_outcome(rec, ids, channels)
                same = (tr["lines"] == [tuple(x) for x in rec["lines"]] and tr["logs"] == logs and {k: v for k, v in tr["remaining"].items() if v} == rem and not tr["errors"])
                if not same:
                    res["detail"] = "conformance: model and real transport disagree under policy %s: model %r vs real lines %r logs %r remaining %r" % (pn, tr, rec["lines"], logs, rem)
                    return res
                res["conformance_runs"] += 1
            # 4. unwinding / capacity (raise the bound while schedules exist that are not finished)
            for _ in range(6):
                r, m = enc.check(z3.Not(enc.all_done()), z3.Not(z3.Or(*enc.deadlock)), por=True)
                if r == "unsat":
                    break
                if r != "sat":
                    res["detail"] = "unwinding query: %s" % r
                    return res
                K += 6
                enc, ids, channels = _encode(name, K)
            else:
                res["detail"] = "unwinding assertion still violated at K=%d" % K
                return res
            # 5. the property, over all interleavings
            terms = enc.violation_terms()
            cap = enc.S[enc.K]["ovf"] == 1  # capacity: a bound of the heap model (deques, locks, buffer, log) exceeded
            r, m = enc.check(z3.Or(cap, *terms.values()), por=True)
            if r == "sat" and z3.is_true(m.eval(cap, model_completion=True)):
                res["detail"] = "capacity: a bound of the heap model can be exceeded (schedule %r)" % (enc.trace_of(m)["schedule"],)
                return res
        except S.Unsupported as e:
            res["detail"] = "translator: construct outside the supported subset: %s" % e
            res["queries"] = 0
            return res
        res["queries"] = enc.queries
        res["solver_queries"] = enc.queries
        res["solver_time_s"] = round(enc.solver_time, 2)
        res["K"] = K
        res["wall_s"] = round(time.perf_counter() - t0, 2)
        res["functions_entered"] = {"semantiva/execution/transport/in_memory.py:InMemorySemantivaTransport.publish": 1, "semantiva/execution/transport/in_memory.py:InMemorySubscription.__iter__": 1, "semantiva/execution/transport/in_memory.py:InMemorySemantivaTransport.__init__": 1}
        if r == "unsat":
            res["status"] = "discharged"
            res["nontrivial_queries"] = enc.queries
            r2, m2 = enc.check(enc.all_done(), por=True)  # reachability witness: some schedule finishes (vacuity guard)
            if r2 != "sat":
                res["status"] = "inconclusive"
                res["detail"] = "vacuous: no schedule reaches the final state"
                return res
            w = enc.trace_of(m2)
            res["sample"] = {"scenario": name, "K": K, "one_schedule": w["schedule"], "lines": w["lines"], "delivered": w["logs"], "remaining": w["remaining"]}
            return res
        if r != "sat":
            res["detail"] = "property query: %s" % r
            return res
        tr = enc.trace_of(m)
        which = [k for k, v in terms.items() if z3.is_true(m.eval(v, model_completion=True))]
        res.update(status="refuted", counterexample={"scenario": name, "schedule": tr["schedule"]}, fingerprint="C14:%s:%s" % (name, which[0] if which else "?"),
                   detail="z3 schedule %r -> model outcome %r (violated: %s)" % (tr["schedule"], {k: tr[k] for k in ("logs", "remaining", "errors", "done")}, which))
        return res

    return run


def _replay_b(param, a):
    name = param
    sch = list(a.get("schedule") or [])
    bad = {"n": 0}

    def choose(en, k):
        if k < len(sch) and sch[k] in en:
            return sch[k]
        if k < len(sch):
            bad["n"] += 1
        return en[0]

    rec: Dict[str, Any] = {}
    try:
        v = run_scenario(name, choose, rec)
    except Exception as e:  # noqa: BLE001
        return {"reproduced": False, "fingerprint": "", "detail": "replay of the model schedule stalled: %r" % (e,)}
    if v is True:
        return {"reproduced": False, "fingerprint": "", "detail": "exactly-once delivery on the real code under the model's schedule %r (%d steps not enabled as in the model); real line trace %r" % (sch, bad["n"], rec.get("lines"))}
    return {"reproduced": True, "fingerprint": v.fingerprint, "detail": v.detail + " | line trace (thread, line): %r" % (rec.get("lines"),)}


def obligations(tier: str) -> List[Ob]:
    P = 2 if tier == "quick" else 3
    names = list(SCENARIOS) if tier == "thorough" else ["2pub-new-channel", "2pub-existing-channel", "pub-new+sub-wildcard", "pub-existing+sub-exact", "2pub+sub-wildcard"]  # (quick: one 3-thread scenario for C14.S; "pub-other+sub-exact" and the other 3-thread ones are thorough-tier)
    names = names + [nm for nm in CB_SCENARIOS if nm not in names] if tier == "thorough" else names + ["cb-runner+close-prefilled"]
    two_thread = [nm for nm in names if len(_threads(nm)) == 2 and nm not in CB_SCENARIOS]
    # C14.B decides every 2-thread scenario in seconds: the quick tier gives it all of them, C14.S keeps the original six
    bnames = [nm for nm in names if nm not in CB_SCENARIOS] if tier == "thorough" else two_thread + ["2pub-new-channel-2msgs", "2sub-prefilled", "2sub-prefilled-1msg", "2pub-two-channels-repeat"]
    params = []
    for nm in names:
        st = _steps(nm)
        n = len(_threads(nm))
        for first in range(n):
            for t1 in range(n):
                params.append((nm, P, st, first, t1))
    return [
        Ob("C14.S", _make, _replay, params=params, budget=1500 if tier == "quick" else 6000, per_path=60,
           bound="per scenario (2-3 publishers with 1-2 messages, 0-2 concurrent subscribers, new and existing channels, exact and wildcard patterns): initial thread and up to P=%d preemptions (global step index and target thread) symbolic; step bound measured from the source + 6" % P,
           targets=["semantiva/execution/transport/in_memory.py:InMemorySemantivaTransport.publish", "semantiva/execution/transport/in_memory.py:InMemorySubscription.__iter__", "semantiva/execution/transport/in_memory.py:InMemorySemantivaTransport.__init__"]),
        Ob("C14.B", _make_b, _replay_b, params=bnames, budget=3000, engine="B",
           bound="z3 over ALL interleavings at line granularity (no preemption bound) of the transition relation compiled from in_memory.py's AST; step bound K = longest real run + 4, raised until the unwinding query is unsat; heap bounds (deques, locks, buffer, log) sized from the scenario and checked by a capacity query; 8-bit bit-vectors",
           targets=["semantiva/execution/transport/in_memory.py:InMemorySemantivaTransport.publish", "semantiva/execution/transport/in_memory.py:InMemorySubscription.__iter__", "semantiva/execution/transport/in_memory.py:InMemorySemantivaTransport.__init__"]),
    ]


def extra_coverage(results):
    b = [r for r in results if r.get("oid") == "C14.B"]
    return {"b_sched": {"scenarios_decided_over_all_interleavings": len([r for r in b if r.get("status") == "discharged"]), "step_bounds_K": [r.get("K") for r in b], "conformance_runs_model_vs_real": int(sum(int(r.get("conformance_runs") or 0) for r in b)),
                        "z3_queries": int(sum(int(r.get("queries") or 0) for r in b)), "z3_seconds": round(sum(float(r.get("solver_time_s") or 0) for r in b), 2)},
            "schedules_executed": int(sum(int(r.get("paths_reached_assert") or 0) for r in results)), "scenarios": {k: v for k, v in SCENARIOS.items()},
            "states": max(1, int(sum(int(r.get("paths_reached_assert") or 0) for r in results))), "transitions": max(1, int(sum(int(r.get("paths") or 0) for r in results))), "traces_validated_against_impl": int(sum(int(r.get("paths_reached_assert") or 0) for r in results))}
