"""C10 -- tracing is purely observational and traces are reproducible (Engine A).

P1a per shape template (all values / placements symbolic): the real run without a trace driver and with an
    in-memory trace driver give the same data, context, component log, or the same exception class after the
    same components ran.
P1b hostile hooks: payload and context values are objects whose __repr__, __len__, to_json, to_bytes and
    __eq__ count their calls and raise under symbolic flags (5 flags), for each detail level {hash, repr,
    context, all}; traced vs untraced result/exception must agree and no hook exception may escape.
P2  reproducibility: the same configuration on the same payload twice -- same Pipeline object, fresh objects,
    after an unrelated pipeline, on an orchestrator shared with a different configuration -- yields JSONL
    traces that are identical after removing the documented volatile fields (run id, timestamps, durations,
    sequence numbers).  History kind, template and detail level are solver-selected; values concrete.
"""
from __future__ import annotations

import json
import os
from typing import Any, Dict, List

from vt import shapes
from vt.props import C01, C06
from vt.runner import Fail, Ob

LEVEL = "model_checking"
STUBS = C01.STUBS
ASSUMPTIONS = C01.ASSUMPTIONS + ["P1b and P2 run on concrete values with solver-selected scenarios (hook flags, history kind, template, detail level)"]
OUTSIDE = ["third-party payload types beyond the hostile hook set", "histories longer than two prior executions"]


def setup_symbolic() -> None:
    C01.setup_symbolic()


# --------------------------------------------------------------------------------------------- P1a
def _make_p1a(T):
    use_s = shapes.uses_strings(T)

    def p1a(v0: int, v1: int, v2: int, v3: int, v4: int, v5: int, v6: int, v7: int, v8: int, v9: int, v10: int, v11: int,
            f0: bool, f1: bool, f2: bool, f3: bool, f4: bool, f5: bool, f6: bool, f7: bool, f8: bool, f9: bool, f10: bool, f11: bool, s0: str, s1: str):
        if use_s:
            from vt.engine import assume

            assume(len(s0) <= 3 and len(s1) <= 3)
        return _p1a_body(T, [v0, v1, v2, v3, v4, v5, v6, v7, v8, v9, v10, v11], [f0, f1, f2, f3, f4, f5, f6, f7, f8, f9, f10, f11], [s0, s1])

    return p1a


def _outcome(real_nodes, real_data, ctx0, trace):
    from vt import lib

    lib.reset_log()
    try:
        d, c = lib.run_pipeline(real_nodes, real_data, ctx0, trace=trace)
        return ("ok", shapes.ref_data(d), c, list(lib.LOG))
    except Exception as e:  # noqa: BLE001
        return ("exc", type(e).__name__, None, list(lib.LOG))


def _p1a_body(T, V, F, S):
    from vt.memtrace import MemTrace

    ref_nodes, data0, ctx0 = shapes.instantiate(T, V, F, S)
    n1, d1 = shapes.to_real(ref_nodes, data0)
    a = _outcome(n1, d1, ctx0, None)
    n2, d2 = shapes.to_real(ref_nodes, data0)
    b = _outcome(n2, d2, ctx0, MemTrace(options={"hash": False, "repr": False, "context": False}))
    if a[0] != b[0]:
        return Fail("C10.P1a:outcome-differs", "template %s: untraced run %s, traced run %s" % (T["name"], a[:2], b[:2]))
    if a[0] == "exc":
        if a[1] != b[1] or not (a[3] == b[3]):
            return Fail("C10.P1a:exception-differs", "template %s: untraced %s after %r, traced %s after %r" % (T["name"], a[1], a[3], b[1], b[3]))
        return True
    if not shapes.same_data(a[1], b[1]):
        return Fail("C10.P1a:data-differs", "template %s: traced run returns other data" % T["name"])
    if not (a[2] == b[2]):
        return Fail("C10.P1a:context-differs", "template %s: traced run returns another context" % T["name"])
    if not (a[3] == b[3]):
        return Fail("C10.P1a:log-differs", "template %s: components/parameters differ under tracing" % T["name"])
    return True


def _replay_p1a(T, a):
    from vt import lib

    lib.register()
    v = _p1a_body(T, [a["v%d" % i] for i in range(shapes.NV)], [a["f%d" % i] for i in range(shapes.NF)], [a.get("s0", ""), a.get("s1", "")])
    return _wrap(v)


def _wrap(v):
    if v is True:
        return {"reproduced": False, "fingerprint": "", "detail": "no difference on the concrete input"}
    return {"reproduced": True, "fingerprint": v.fingerprint, "detail": v.detail}


# --------------------------------------------------------------------------------------------- P1b hostile hooks
HOOKS = ("repr", "len", "to_json", "to_bytes", "eq")  # hooks that may raise; iteration of the one-shot stream never raises: consuming it IS the interference


def _hostile(flags: Dict[str, bool], counter: Dict[str, int]):
    from vt import lib

    class HErr(Exception):
        pass

    def hit(name):
        counter[name] = counter.get(name, 0) + 1
        if flags.get(name):
            raise HErr("hostile %s" % name)

    class HVal:
        """context value with hostile observation hooks"""

        def __init__(self, v):
            self.v = v

        def __repr__(self):
            hit("repr")
            return "HVal(%d)" % self.v

        def __len__(self):
            hit("len")
            return 1

        def to_json(self):
            hit("to_json")
            return {"v": self.v}

        def to_bytes(self):
            hit("to_bytes")
            return b"v%d" % self.v

        def __eq__(self, other):
            hit("eq")
            return isinstance(other, HVal) and other.v == self.v

        def __hash__(self):
            return 7

        def __radd__(self, other):
            return other + self.v

        def __add__(self, other):
            return self.v + other

    class HIter:
        """one-shot stream held in the context (no __dict__): iterating it is an observable side effect -- whoever iterates
        first gets the items"""

        __slots__ = ("it",)

        def __init__(self, items):
            self.it = iter(list(items))

        def __iter__(self):
            hit("iter")
            return self

        def __next__(self):
            return next(self.it)

        def __repr__(self):
            hit("repr")
            return "HIter"

    class HData(lib.IntData):
        """payload with hostile observation hooks"""

        def __repr__(self):
            hit("repr")
            return "HData"

        __str__ = __repr__

        def __len__(self):
            hit("len")
            return 1

        def to_json(self):
            hit("to_json")
            return {"d": 1}

        def to_bytes(self):
            hit("to_bytes")
            return b"d"

        def __eq__(self, other):
            hit("eq")
            return self is other

        def __hash__(self):
            return 3

    HVal.Stream = HIter
    return HVal, HData, HErr


_DRAIN: List[Any] = []


def _op_drain():
    from vt import lib

    if not _DRAIN:
        class OpDrain(lib._IntOp):
            """consumes the one-shot stream it is given as a parameter"""

            def _process_logic(self, data, stream):
                return lib.IntData(data.data + sum(stream))

        _DRAIN.append(OpDrain)
    return _DRAIN[0]


def _p1b_scenario(detail: str, bits: int, failing: bool, drain_first: bool = False):
    from semantiva.trace.drivers.jsonl import JsonlTraceDriver
    from vt import lib
    from vt.memtrace import MemTrace

    flags = {h: bool((bits >> i) & 1) for i, h in enumerate(HOOKS)}
    outs = []
    for traced in (False, True):
        counter: Dict[str, int] = {}
        HVal, HData, HErr = _hostile(flags if traced else {}, counter)
        nodes = [{"processor": lib.OpAdd, "parameters": {}}, {"processor": lib.PrVal, "context_key": "out"}, {"processor": lib.OpAddDef, "parameters": {}}]
        # the consumer of the one-shot stream is the first node (nothing ran before it) or the last
        nodes = ([{"processor": _op_drain(), "parameters": {}}] + nodes) if drain_first else (nodes + [{"processor": _op_drain(), "parameters": {}}])
        if failing:
            nodes.append({"processor": lib.OpBoom, "parameters": {}})
        ctx = {"addend": HVal(4), "k": HVal(9), "stream": HVal.Stream([1, 2, 3])}
        tr = MemTrace(options=JsonlTraceDriver(None, detail=detail).get_options()) if traced else None
        lib.reset_log()
        try:
            d, c = lib.run_pipeline(nodes, HData(3), ctx, trace=tr)
            outs.append(("ok", d.data, sorted(c), [(n, sorted(p)) for n, p in lib.LOG]))
        except Exception as e:  # noqa: BLE001
            outs.append(("exc", type(e).__name__, None, [(n, sorted(p)) for n, p in lib.LOG]))
        if traced and tr is not None:
            n_ser = len([r for r in tr.records if r["record_type"] == "ser"])
            outs.append(n_ser)
    a, b, n_ser = outs[0], outs[1], outs[2]
    raising = [h for h in HOOKS if flags[h]]
    if a != b:
        return Fail("C10.P1b:hook-interferes:%s" % "+".join(raising or ["none"]), "detail %s: untraced %r, traced %r (hooks raising: %r)" % (detail, a[:2], b[:2], raising))
    return True


def _make_p1b(detail):
    def p1b(bits: int, failing: bool, drain_first: bool):
        from crosshair.tracers import NoTracing
        from vt.engine import assume

        assume(0 <= bits < 32)
        cb = next(i for i in range(32) if bits == i)
        cf = True if failing else False
        from vt import stubs

        with NoTracing(), stubs.suspended():
            return _p1b_scenario(detail, cb, cf, True if drain_first else False)

    return p1b


# --------------------------------------------------------------------------------------------- P2 reproducibility
HISTORIES = ["same-object-twice", "fresh-objects", "after-other-pipeline", "shared-orchestrator-other-config", "same-object-after-failing-run", "shared-orchestrator-other-detail", "same-object-untraced-first", "after-dead-run-with-run-metadata"]
_VOLATILE_TOP = ("run_id", "timestamp", "seq")


def _normalise(rec: Dict[str, Any]) -> Dict[str, Any]:
    r = json.loads(json.dumps(rec))
    for k in _VOLATILE_TOP:
        r.pop(k, None)
    if isinstance(r.get("identity"), dict):
        r["identity"].pop("run_id", None)
    r.pop("timing", None)
    return r


def _sweep_cfg(expr: str, vals):
    from vt import lib

    return [{"processor": lib.SrcD, "parameters": {"value": 2}},
            {"processor": lib.OpTwo, "derive": {"parameter_sweep": {"parameters": {"a": expr}, "variables": {"t": {"values": list(vals)}}, "collection": "IntColl"}}, "parameters": {"b": 1}},
            {"processor": lib.OpSum, "parameters": {}}, {"processor": lib.PrVal, "context_key": "total"}]


def _configs():
    from vt import lib

    plain = [{"processor": lib.SrcD, "parameters": {"value": 5}}, {"processor": lib.OpAddDef, "parameters": {}}, {"processor": lib.PrParam, "context_key": "p", "parameters": {"offset": 2}}, {"processor": "rename:p:q"}, {"processor": lib.OpAff, "parameters": {}}]
    failing = [{"processor": lib.SrcD, "parameters": {}}, {"processor": lib.OpAddDef, "parameters": {}}, {"processor": lib.OpBoom, "parameters": {}}]
    return {"plain": plain, "sweep": _sweep_cfg("t + 10", [1, 2, 3]), "failing": failing, "other-sweep": _sweep_cfg("2 * t", [4, 5])}


def _trace_of(run) -> List[Dict[str, Any]]:
    """run(driver) executes; returns the normalised records the real JSONL driver wrote."""
    import uuid

    from semantiva.trace.drivers.jsonl import JsonlTraceDriver

    raise NotImplementedError


def _p2_scenario(cfg_name: str, hist: int, detail: str):
    import uuid

    from semantiva.context_processors import ContextType
    from semantiva.execution.orchestrator.orchestrator import LocalSemantivaOrchestrator
    from semantiva.pipeline import Payload, Pipeline
    from semantiva.trace.drivers.jsonl import JsonlTraceDriver
    from vt import lib

    lib.register()
    cfgs = _configs()
    cfg = cfgs[cfg_name]
    base = C06._scratch()

    def new_driver():
        path = os.path.join(base, "r-%s.jsonl" % uuid.uuid4().hex[:10])
        return JsonlTraceDriver(path, detail=detail), path

    def read(path):
        if not os.path.exists(path):
            return []
        with open(path) as fh:
            return [_normalise(json.loads(ln)) for ln in fh.read().split("\n") if ln.strip()]

    def run(p):
        try:
            p.process(Payload(None, ContextType({})))
        except Exception:  # noqa: BLE001
            pass

    # reference: fresh everything
    d0, p0 = new_driver()
    run(Pipeline([dict(n) for n in cfg], logger=lib.QUIET, trace=d0))
    ref = read(p0)
    hname = HISTORIES[hist]
    if hname == "same-object-twice":
        d1, p1 = new_driver()
        pl = Pipeline([dict(n) for n in cfg], logger=lib.QUIET, trace=d1)
        run(pl)
        first = read(p1)
        os.remove(p1)
        run(pl)
        got = read(p1)
        if first != ref:
            return Fail("C10.P2:not-reproducible:first-run:%s" % cfg_name, "first run of a fresh Pipeline differs from the reference trace")
    elif hname == "fresh-objects":
        d1, p1 = new_driver()
        run(Pipeline([dict(n) for n in cfg], logger=lib.QUIET, trace=d1))
        got = read(p1)
    elif hname == "after-other-pipeline":
        dx, _px = new_driver()
        run(Pipeline([dict(n) for n in cfgs["other-sweep"]], logger=lib.QUIET, trace=dx))
        run(Pipeline([dict(n) for n in cfgs["failing"]], logger=lib.QUIET, trace=new_driver()[0]))
        d1, p1 = new_driver()
        run(Pipeline([dict(n) for n in cfg], logger=lib.QUIET, trace=d1))
        got = read(p1)
    elif hname == "shared-orchestrator-other-config":
        orch = LocalSemantivaOrchestrator()
        run(Pipeline([dict(n) for n in cfgs["other-sweep"]], logger=lib.QUIET, trace=new_driver()[0], orchestrator=orch))
        d1, p1 = new_driver()
        run(Pipeline([dict(n) for n in cfg], logger=lib.QUIET, trace=d1, orchestrator=orch))
        got = read(p1)
    elif hname == "shared-orchestrator-other-detail":
        # the orchestrator first served a run traced with OTHER detail flags
        other = "hash" if detail != "hash" else "all"
        orch = LocalSemantivaOrchestrator()
        px = os.path.join(base, "r-%s.jsonl" % uuid.uuid4().hex[:10])
        run(Pipeline([dict(n) for n in cfg], logger=lib.QUIET, trace=JsonlTraceDriver(px, detail=other), orchestrator=orch))
        d1, p1 = new_driver()
        run(Pipeline([dict(n) for n in cfg], logger=lib.QUIET, trace=d1, orchestrator=orch))
        got = read(p1)
    elif hname == "after-dead-run-with-run-metadata":
        # on the same orchestrator an earlier run that carried run-space metadata died while its nodes were being built
        orch = LocalSemantivaOrchestrator()
        dead = Pipeline([{"processor": lib.OpAddDef, "parameters": {}}, {"processor": lib.OpAddDef, "parameters": {"bogus": 1}}], logger=lib.QUIET, trace=new_driver()[0], orchestrator=orch)
        dead.set_run_metadata({"run_space_launch_id": "L-dead", "run_space_attempt": 3, "run_space_index": 7, "run_space_context": {"k": 1}})
        run(dead)
        d1, p1 = new_driver()
        run(Pipeline([dict(n) for n in cfg], logger=lib.QUIET, trace=d1, orchestrator=orch))
        got = read(p1)
    elif hname == "same-object-untraced-first":
        # one Pipeline object: an untraced run first, then the trace driver is attached and it runs again
        pl = Pipeline([dict(n) for n in cfg], logger=lib.QUIET)
        run(pl)
        d1, p1 = new_driver()
        pl.trace = d1
        run(pl)
        got = read(p1)
    else:  # same-object-after-failing-run: a failing run in between on a shared orchestrator
        orch = LocalSemantivaOrchestrator()
        run(Pipeline([dict(n) for n in cfgs["failing"]], logger=lib.QUIET, trace=new_driver()[0], orchestrator=orch))
        d1, p1 = new_driver()
        run(Pipeline([dict(n) for n in cfg], logger=lib.QUIET, trace=d1, orchestrator=orch))
        got = read(p1)
    if got != ref:
        diff = _first_diff(ref, got)
        return Fail("C10.P2:not-reproducible:%s:%s" % (hname, cfg_name), "trace of %s after history '%s' differs from the reference at %s" % (cfg_name, hname, diff))
    return True


def _first_diff(a, b, path="$") -> str:
    if type(a) is not type(b):
        return "%s: %r vs %r" % (path, a, b)
    if isinstance(a, dict):
        for k in sorted(set(a) | set(b)):
            if k not in a or k not in b:
                return "%s.%s present in one only" % (path, k)
            d = _first_diff(a[k], b[k], path + "." + str(k))
            if d:
                return d
        return ""
    if isinstance(a, list):
        if len(a) != len(b):
            return "%s: %d vs %d items" % (path, len(a), len(b))
        for i, (x, y) in enumerate(zip(a, b)):
            d = _first_diff(x, y, "%s[%d]" % (path, i))
            if d:
                return d
        return ""
    return "" if a == b else "%s: %r vs %r" % (path, str(a)[:80], str(b)[:80])


def _make_p2(detail):
    names = ["plain", "sweep", "failing"]

    def p2(ci: int, hist: int):
        from crosshair.tracers import NoTracing
        from vt.engine import assume

        assume(0 <= ci < len(names) and 0 <= hist < len(HISTORIES))
        cci = next(i for i in range(len(names)) if ci == i)
        ch = next(i for i in range(len(HISTORIES)) if hist == i)
        from vt import stubs

        with NoTracing(), stubs.suspended():
            return _p2_scenario(names[cci], ch, detail)

    return p2


def templates(tier: str):
    T = shapes.length1() + shapes.curated() + shapes.generated(2)
    if tier == "thorough":
        T += shapes.generated(3)
    return T


def obligations(tier: str) -> List[Ob]:
    big = tier == "thorough"
    return [
        Ob("C10.P1a", _make_p1a, _replay_p1a, params=templates(tier), budget=400 if not big else 900, per_path=60,
           bound="per shape template (as C01), values and placements symbolic: untraced vs traced (in-memory driver) outcome, data, context, component log", targets=["semantiva/execution/orchestrator/orchestrator.py:SemantivaOrchestrator.execute", "semantiva/execution/orchestrator/orchestrator.py:SemantivaOrchestrator._context_snapshot"], stubs=list(STUBS)),
        Ob("C10.P1b", _make_p1b, lambda d, a: _wrap(_p1b_scenario(d, a["bits"], a["failing"], a.get("drain_first", False))), params=list(C06.DETAILS), budget=300,
           bound="payload and context values with hostile __repr__/__len__/to_json/to_bytes/__eq__ and a one-shot __iter__ stream consumed by the first or the last node (flag); which hooks raise = symbolic 5-bit mask; succeeding or failing pipeline (flag); 7 detail flag sets", targets=["semantiva/execution/orchestrator/orchestrator.py:SemantivaOrchestrator._data_summary", "semantiva/execution/orchestrator/orchestrator.py:SemantivaOrchestrator._context_summary", "semantiva/trace/delta_collector.py:DeltaCollector.compute", "semantiva/trace/_utils.py:serialize"], stubs=["time", "env_pins", "datetime", "str"]),
        Ob("C10.P2", _make_p2, lambda d, a: _wrap(_p2_scenario(["plain", "sweep", "failing"][a["ci"]], a["hist"], d)), params=list(C06.DETAILS), budget=300,
           bound="3 configurations (plain, with a sweep node, failing) x 5 histories (same object twice, fresh objects, after other pipelines, orchestrator shared with another sweep configuration, orchestrator shared with a failing run) - symbolic selectors; 4 detail levels; real JSONL driver, normalised traces compared",
           targets=["semantiva/execution/orchestrator/orchestrator.py:SemantivaOrchestrator._make_ser_record", "semantiva/trace/drivers/jsonl.py:JsonlTraceDriver.on_node_event"], stubs=["time", "env_pins", "datetime", "str"]),
    ]


def extra_coverage(results):
    from vt import stubs

    return {"templates": len([r for r in results if r["oid"] == "C10.P1a"]), "stubs": stubs.described(STUBS)}
