"""C17 -- the CLI never executes a configuration its pre-flight checks reject (Engine A).

P1  real cli._run(Namespace) (in-process; stubs listed in the evidence) on a 4-node pipeline with a run space.
    Symbolic: --run-space-dry-run, presence of the required key in --context, presence of the required key in
    the run-space block, number of planned runs (1..2), which run fails, whether the YAML run space spells
    dry_run / max_runs itself and with which values, --run-space-max-runs present and its value.
    One obligation per (configuration variant, --validate, --dry-run); variants: valid, unknown parameter,
    type incompatibility, probe without context_key, deleted-then-required, use-before-create, malformed
    run_space mapping, unequal by_position lengths.
    Oracle (cli.rst): exit 3 for configuration / run-space / cap / missing-key problems, 0 for --validate,
    --dry-run, run-space dry run and for a launch whose runs all completed, 4 when a run failed; whenever the
    launch is not supposed to execute, NO component ran (harness log empty - sinks included) and NO trace
    record was emitted; runs execute in plan order and none starts after a failed one.
"""
from __future__ import annotations

from typing import Any, Dict, List

from vt.props import C04
from vt.runner import Fail, Ob

LEVEL = "model_checking"
STUBS = ("time", "serialize_json_safe", "stable_equal", "str", "semantic_id", "env_pins", "datetime", "repr")
ASSUMPTIONS = ["CLI driven in-process through cli._run(Namespace): argparse, real YAML files and --set path parsing are outside", "precedence of simultaneous conditions follows cli.rst reading: configuration error > --validate > run-space errors / cap > missing keys > dry runs", "CrossHair 0.0.110 + z3 5.1 models"]
OUTSIDE = ["argparse itself, real YAML files, --set overrides", "launches of more than 2 runs", "file-writing sinks (the harness sink logs instead) and JSONL trace files (in-memory driver records instead)"]

VARIANTS = ["valid", "unknown-parameter", "type-incompatibility", "probe-without-context-key", "deleted-then-required", "use-before-create", "malformed-run-space", "unequal-by-position-lengths"]


def setup_symbolic() -> None:
    from vt import cliharness, lib, stubs

    from vt import ihash

    stubs.apply(STUBS)
    ihash.install()  # the launch hashes the run-space spec (which carries the symbolic run values): keep it symbolic
    lib.register()
    cliharness.install()


def _config(variant: str, n: int, values, fires, rs_has_value: bool, yaml_dry, yaml_max):
    from vt import lib

    nodes: List[Dict[str, Any]] = [
        {"processor": lib.SrcV, "parameters": {}},
        {"processor": lib.OpAdd, "parameters": {}},
        {"processor": lib.OpBoom, "parameters": {}},
        {"processor": lib.Snk, "parameters": {}},
    ]
    if variant == "unknown-parameter":
        nodes[1] = {"processor": lib.OpAdd, "parameters": {"bogus": 1}}
    elif variant == "type-incompatibility":
        nodes.insert(2, {"processor": lib.OpSum, "parameters": {}})
    elif variant == "probe-without-context-key":
        nodes.insert(2, {"processor": lib.PrVal})
    elif variant == "deleted-then-required":
        nodes.insert(1, {"processor": "delete:addend"})
    elif variant == "use-before-create":
        # 'addend' is consumed by node 1 and only created by a later probe: must be supplied externally
        nodes.insert(3, {"processor": lib.PrVal, "context_key": "addend"})
    ctx: Dict[str, Any] = {"fire": [fires[0], fires[1]] if n == 2 else [fires[0]]}
    if rs_has_value:
        ctx["value"] = [values[0], values[1]] if n == 2 else [values[0]]
    if variant == "unequal-by-position-lengths":
        ctx["fire"] = ctx["fire"] + [False]
        ctx["value"] = [values[0], values[1]] if n == 2 else [values[0]]
    rs: Dict[str, Any] = {"blocks": [{"mode": "by_position", "context": ctx}]}
    if variant == "malformed-run-space":
        rs = {"blocks": "nope"}
    if yaml_dry is not None:
        rs["dry_run"] = yaml_dry
    if yaml_max is not None:
        rs["max_runs"] = yaml_max
    return {"pipeline": {"nodes": nodes}, "run_space": rs}


def _make_p1(param):
    """param = (variant, fixed) where fixed maps some of {validate, dry, rs_dry, two_runs} to concrete values;
    everything else is symbolic and is only branched on where the code under test (or the oracle) looks at it."""
    variant, fixed = param

    def p1(validate: bool, dry: bool, rs_dry: bool, two_runs: bool, ctx_has_addend: bool, rs_has_value: bool, f0: bool, f1: bool, yaml_dry_present: bool, yaml_dry_value: bool,
           yaml_max_present: bool, yaml_max: int, cli_max_present: bool, cli_max: int, addend: int, x0: int, x1: int, via_file: bool):
        yaml_dry_present = fixed.get("ydp", yaml_dry_present)
        yaml_max_present = fixed.get("ymp", yaml_max_present)
        cli_max_present = fixed.get("cmp", cli_max_present)
        validate = fixed.get("validate", validate)
        dry = fixed.get("dry", dry)
        rs_dry = fixed.get("rs_dry", rs_dry)
        two_runs = fixed.get("two_runs", two_runs)
        from vt.engine import assume

        # the cap error message formats both numbers (f"{n:,}"): keep them in a small range so that formatting
        # enumerates finitely many values
        if yaml_max_present:
            assume(0 <= yaml_max <= 3)
        if cli_max_present:
            assume(0 <= cli_max <= 3)
        return _p1_body(variant, validate, dry, rs_dry, ctx_has_addend, rs_has_value, 2 if two_runs else 1, [f0, f1],
                        (yaml_dry_value if yaml_dry_present else None), (yaml_max if yaml_max_present else None), (cli_max if cli_max_present else None), addend, [x0, x1], True if via_file else False)

    return p1


def _p1_body(variant, validate, dry, rs_dry, ctx_has_addend, rs_has_value, n, fires, yaml_dry, yaml_max, cli_max, addend, xs, via_file=False):
    from vt import cliharness, lib
    from vt.memtrace import MemTrace

    lib.register()
    cliharness.install()
    cfg = _config(variant, n, xs, fires, rs_has_value, yaml_dry, yaml_max)
    tr = MemTrace()
    lib.reset_log()
    flags: Dict[str, Any] = {"validate": validate, "dry_run": dry, "run_space_dry_run": rs_dry}
    if cli_max is not None:
        flags["run_space_max_runs"] = cli_max
    rs_file = None
    if via_file:
        # the same run space supplied through --run-space-file (wrapped in a run_space: key) instead of the inline block
        rs_file = {"run_space": cfg.pop("run_space")}
    rc = cliharness.run_cli(cfg, trace=tr, ctx=({"addend": addend} if ctx_has_addend else {}), rs_file=rs_file, **flags)
    log = list(lib.LOG)
    # ---------------- oracle
    eff_max = cli_max if cli_max is not None else (yaml_max if yaml_max is not None else 1000)
    eff_dry = bool(rs_dry) or bool(yaml_dry)
    total = n
    if variant in ("unknown-parameter", "type-incompatibility", "probe-without-context-key", "deleted-then-required", "malformed-run-space"):
        exp_rc, execute, why = 3, False, "invalid configuration (%s)" % variant
    elif validate:
        exp_rc, execute, why = 0, False, "--validate"
    elif variant == "unequal-by-position-lengths":
        exp_rc, execute, why = 3, False, "invalid run space (unequal by_position lengths)"
    elif total > eff_max:
        exp_rc, execute, why = 3, False, "run space exceeds its cap (%d > %d)" % (total, eff_max)
    elif not ctx_has_addend or not rs_has_value:
        exp_rc, execute, why = 3, False, "required context key not supplied"
    elif eff_dry:
        exp_rc, execute, why = 0, False, "run-space dry run"
    elif dry:
        exp_rc, execute, why = 0, False, "--dry-run"
    else:
        execute, why = True, "launch"
        first_fail = None
        for i in range(n):
            if fires[i]:
                first_fail = i
                break
        exp_rc = 0 if first_fail is None else 4
    tag = "%s:%s" % (variant, why.split(" (")[0].replace(" ", "-"))
    if not execute:
        if log:
            return Fail("C17.P1:executed-despite:%s" % tag, "%s, yet components ran: %r" % (why, [e[0] for e in log]))
        if tr.records:
            return Fail("C17.P1:traced-despite:%s" % tag, "%s, yet %d trace records were emitted (%s...)" % (why, len(tr.records), tr.records[0]["record_type"]))
        if rc != exp_rc:
            return Fail("C17.P1:exit-code:%s" % tag, "%s: exit code %r, documented %r" % (why, rc, exp_rc))
        return True
    # launch: runs in plan order, none after a failure
    exp_log = []
    for i in range(n):
        exp_log.append(("SrcV", {"value": xs[i]}))
        exp_log.append(("OpAdd", {"addend": addend}))
        exp_log.append(("OpBoom", {"fire": fires[i]}))
        if fires[i]:
            break
        if variant == "use-before-create":
            exp_log.append(("PrVal", {}))
        exp_log.append(("Snk", {"tag": 0, "data": xs[i] + addend}))
    if not (log == exp_log):
        return Fail("C17.P1:launch-execution:%s" % variant, "components executed %r, planned %r" % (log, exp_log))
    if rc != exp_rc:
        return Fail("C17.P1:exit-code:%s:launch" % variant, "launch of %d runs (failing flags %r): exit code %r, documented %r" % (n, fires[:n], rc, exp_rc))
    return True


def _replay_p1(param, a):
    variant, fixed = param
    g = lambda k: fixed.get(k, a[k])
    ydp, ymp, cmp_ = fixed.get("ydp", a["yaml_dry_present"]), fixed.get("ymp", a["yaml_max_present"]), fixed.get("cmp", a["cli_max_present"])
    v = _p1_body(variant, g("validate"), g("dry"), g("rs_dry"), a["ctx_has_addend"], a["rs_has_value"], 2 if g("two_runs") else 1, [a["f0"], a["f1"]],
                 (a["yaml_dry_value"] if ydp else None), (a["yaml_max"] if ymp else None), (a["cli_max"] if cmp_ else None), a["addend"], [a["x0"], a["x1"]], a.get("via_file", False))
    return C04._wrap(v)


# --------------------------------------------------------------------------------------------- P2 abort of a run
_EXIT: List[Any] = []


def _op_exit():
    from vt import lib

    if not _EXIT:
        class OpExit(lib._IntOp):
            """calls sys.exit(7) when its parameter `quit` is truthy (a node wrapping a helper that exits)"""

            def _process_logic(self, data, quit: int = 0):
                lib.LOG.append(("OpExit", {"quit": quit}))
                if quit:
                    raise SystemExit(7)
                return data

        _EXIT.append(OpExit)
    return _EXIT[0]


def _p2(two_runs: bool, q0: bool, q1: bool, traced: bool, with_run_space: bool, x0: int, x1: int, addend: int):
    return _p2_body(2 if two_runs else 1, [q0, q1], True if traced else False, True if with_run_space else False, [x0, x1], addend)


def _p2_body(n, quits, traced, with_run_space, xs, addend):
    """a run that dies with SystemExit: the launch must not report success (exit 0 means every planned run completed),
    and no run after it may start -- with or without a trace driver, with or without a run space."""
    from vt import cliharness, lib
    from vt.memtrace import MemTrace

    lib.register()
    cliharness.install()
    if not with_run_space:
        n = 1
    nodes = [{"processor": lib.SrcV, "parameters": {}}, {"processor": lib.OpAdd, "parameters": {}}, {"processor": _op_exit(), "parameters": {}}, {"processor": lib.Snk, "parameters": {}}]
    cfg: Dict[str, Any] = {"pipeline": {"nodes": nodes}}
    ctx: Dict[str, Any] = {"addend": addend}
    if with_run_space:
        cfg["run_space"] = {"blocks": [{"mode": "by_position", "context": {"value": [xs[i] for i in range(n)], "quit": [1 if quits[i] else 0 for i in range(n)]}}]}
    else:
        ctx.update({"value": xs[0], "quit": 1 if quits[0] else 0})
    tr = MemTrace() if traced else None
    lib.reset_log()
    try:
        rc = cliharness.run_cli(cfg, trace=tr, ctx=ctx)
    except SystemExit as e:
        rc = e.code if isinstance(e.code, int) else 1
    log = list(lib.LOG)
    first = None
    for i in range(n):
        if quits[i]:
            first = i
            break
    exp_log = []
    for i in range(n):
        exp_log += [("SrcV", {"value": xs[i]}), ("OpAdd", {"addend": addend}), ("OpExit", {"quit": 1 if quits[i] else 0})]
        if quits[i]:
            break
        exp_log.append(("Snk", {"tag": 0, "data": xs[i] + addend}))
    if not (log == exp_log):
        return Fail("C17.P2:launch-execution", "components executed %r, planned %r" % (log, exp_log))
    if first is None and rc != 0:
        return Fail("C17.P2:exit-code:all-completed", "every planned run completed, exit code %r" % (rc,))
    if first is not None and rc == 0:
        return Fail("C17.P2:exit-0-although-a-run-aborted", "run %d of %d died with SystemExit(7) (%s trace driver, %s run space): exit code 0" % (first, n, "with" if traced else "no", "with" if with_run_space else "no"))
    return True


def obligations(tier: str) -> List[Ob]:
    from vt import cliharness

    import itertools

    params = []
    for v in VARIANTS:
        if v in ("valid", "use-before-create"):
            for val, d, rd, two in itertools.product((False, True), repeat=4):
                base = {"validate": val, "dry": d, "rs_dry": rd, "two_runs": two}
                if not val and not d and not rd:  # the executing shards are the deep ones: split further
                    for ydp, ymp, cmp_ in itertools.product((False, True), repeat=3):
                        params.append((v, dict(base, ydp=ydp, ymp=ymp, cmp=cmp_)))
                else:
                    params.append((v, base))
        else:
            params.append((v, {}))
    return [
        Ob("C17.P2", lambda _p: _p2, lambda _p, a: C04._wrap(_p2_body(2 if a["two_runs"] else 1, [a["q0"], a["q1"]], a["traced"], a["with_run_space"], [a["x0"], a["x1"]], a["addend"])), budget=600, per_path=120,
           bound="a node calling sys.exit(7) in run 0 or 1 (flags), 1-2 planned runs, with/without trace driver, with/without run space (flags), values symbolic",
           targets=["semantiva/cli/__init__.py:_run"], stubs=list(STUBS) + cliharness.STUBS),
        Ob("C17.P1", _make_p1, _replay_p1, params=params, budget=1200, per_path=120,
           bound="8 configuration variants (the two executable ones sharded by --validate/--dry-run/--run-space-dry-run/number of runs; the rejected ones with those flags symbolic too); symbolic: run space inline or through --run-space-file, --run-space-dry-run, --context key present, run-space key present, 1 or 2 planned runs, failing flags per run, YAML dry_run present/value, YAML max_runs present/value (0..3), --run-space-max-runs present/value (0..3), context and payload values",
           targets=["semantiva/cli/__init__.py:_run", "semantiva/inspection/builder.py:build_pipeline_inspection", "semantiva/inspection/validator.py:validate_pipeline", "semantiva/execution/run_space.py:expand_run_space", "semantiva/configurations/load_pipeline_from_yaml.py:parse_pipeline_config"], stubs=list(STUBS) + cliharness.STUBS + ["injective-hash model for json/hashlib/uuid (identity values are not the subject here; keeps run values symbolic)"]),
    ]


def extra_coverage(results):
    from vt import cliharness, stubs

    return {"stubs": stubs.described(STUBS) + cliharness.STUBS, "variants": VARIANTS}
