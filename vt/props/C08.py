"""C08 -- run-space expansion yields exactly the documented ordered list of runs (Engine A).

U1  _expand_entries: 1..3 keys with symbolic lists (length 0..3), mode symbolic; sorted keys, by_position
    alignment / error on unequal lengths, Cartesian product rightmost fastest, empty lists.
P1  expand_run_space: two blocks (block 1: inline keys b, a; block 2: inline key c + optional external source
    with columns d, e, k entering through a stubbed _load_source_file as symbolic columns), modes at block,
    source and combine level symbolic, select / rename chosen by symbolic indices over option tables,
    max_runs symbolic; vs. a 50-line reference: run list and order, every run has exactly the union of keys,
    meta counts; configuration errors; max-runs error iff size > max_runs with actual_runs = true size.
P2  "without materialising": with a counting itertools.product, whenever the max-runs error is raised the
    number of combinations drawn is <= max_runs + sum(input lengths) + 1 (linear work allowed).
U2  _parse_run_space_block: symbolic shape selector over documented / malformed YAML mappings.
"""
from __future__ import annotations

import itertools as _it
from typing import Any, Dict, List

from vt.props import C01
from vt.runner import Fail, Ob

LEVEL = "model_checking"
ASSUMPTIONS = [
    "external sources enter as an arbitrary columnar mapping Dict[str, List[int]] through a stubbed _load_source_file (csv/json/yaml/ndjson parsing is C-level I/O and outside); the file read for the provenance digest hits a real empty scratch file",
    "CrossHair 0.0.110 + z3 5.1 models of int/bool/list/dict",
]
OUTSIDE = ["file parsers (csv/json/yaml/ndjson)", "more than 2 blocks / lists longer than 3 (thorough: 3 blocks)", "products far larger than memory are covered only through the counting argument at lengths <= 3"]

_SCRATCH: Dict[str, str] = {}
DRAWN = [0]
DRAWN_COMBINE = [0]


def _ensure_scratch() -> str:
    if "dir" not in _SCRATCH:
        import atexit
        import os
        import shutil
        import tempfile

        d = tempfile.mkdtemp(prefix="c08-")
        open(os.path.join(d, "src.csv"), "w").close()
        _SCRATCH["dir"] = d
        atexit.register(lambda: shutil.rmtree(d, ignore_errors=True))
    return _SCRATCH["dir"]


COLS: Dict[str, List[int]] = {}


def setup_symbolic() -> None:
    _install()


def _install() -> None:
    import semantiva.execution.run_space as rs

    _ensure_scratch()
    if getattr(rs, "_c08_installed", False):
        return

    class _CountingItertools:
        @staticmethod
        def product(*iters):
            iters = [list(x) for x in iters]
            # stage: the cross-block combination multiplies lists of run dicts, the in-block expansion lists of values
            combine = bool(iters) and all(len(x) > 0 and isinstance(x[0], dict) for x in iters)
            for combo in _it.product(*iters):
                DRAWN[0] += 1
                if combine:
                    DRAWN_COMBINE[0] += 1
                yield combo

    rs.itertools = _CountingItertools
    rs._load_source_file = lambda path, fmt: {k: list(v) for k, v in COLS.items()}
    rs._c08_installed = True


def _mode(f: bool) -> str:
    return "by_position" if f else "combinatorial"


def _ref_entries(entries: Dict[str, List[Any]], mode: str):
    if not entries:
        return []
    keys = sorted(entries)
    if mode == "by_position":
        n = len(entries[keys[0]])
        for k in keys:
            if len(entries[k]) != n:
                return "cfg"
        return [{k: entries[k][i] for k in keys} for i in range(n)]
    runs = [{}]
    for k in keys:
        runs = [dict(r, **{k: v}) for r in runs for v in entries[k]]
    return runs


# --------------------------------------------------------------------------------------------- U1
def _u1(a: List[int], b: List[int], c: List[int], nkeys: int, by_pos: bool):
    from semantiva.exceptions.pipeline_exceptions import PipelineConfigurationError
    from semantiva.execution.run_space import _expand_entries
    from vt.engine import assume

    assume(1 <= nkeys <= 3 and len(a) <= 3 and len(b) <= 3 and len(c) <= 3)
    entries: Dict[str, List[int]] = {"k2": list(a)}
    if nkeys >= 2:
        entries = {"k2": list(a), "k1": list(b)}
    if nkeys >= 3:
        entries = {"k2": list(a), "k1": list(b), "k3": list(c)}
    exp = _ref_entries(entries, _mode(by_pos))
    try:
        got = _expand_entries(entries, _mode(by_pos))
    except PipelineConfigurationError:
        return True if exp == "cfg" else Fail("C08.U1:spurious-error", "legal entries rejected")
    if exp == "cfg":
        return Fail("C08.U1:unequal-lengths-accepted", "by_position accepted unequal lengths")
    if len(got) != len(exp):
        return Fail("C08.U1:run-count", "%d runs, documented %d" % (len(got), len(exp)))
    for g, e in zip(got, exp):
        if not (g == e):
            return Fail("C08.U1:order:%s" % _mode(by_pos), "run %r, documented %r" % (g, e))
    return True


# --------------------------------------------------------------------------------------------- P1 / P2
_SELECTS = [None, ["d"], ["e", "d"], ["d", "k"], ["zz"]]
_RENAMES = [{}, {"d": "x"}, {"d": "e"}, {"d": "c"}, {"e": "a"}, {"d": "x", "e": "x"}, {"k": "e"}]


def _ref_space(a, b, c, d, e, m1, m2, ms, comb, with_src, sel, ren, max_runs):
    """Documented result: ('cfg',) | ('cap', total) | ('ok', runs, block_sizes)."""
    blocks = []
    # block 1: inline a, b
    r1 = _ref_entries({"b": b, "a": a}, m1)
    if r1 == "cfg":
        return ("cfg",)
    blocks.append((r1, {"a", "b"}))
    # block 2: inline c (+ source)
    ctx2 = {"c": c}
    src_cols: Dict[str, List[Any]] = {}
    if with_src:
        cols = {"d": d, "e": e, "k": d}  # column order d, e, k
        if sel is not None:
            picked = {}
            for key in sel:
                if key not in cols:
                    return ("cfg",)
                picked[key] = cols[key]
            cols = picked
        if ren:
            out: Dict[str, List[Any]] = {}
            for key, vals in cols.items():
                tgt = ren.get(key, key)
                if tgt in out:
                    return ("cfg",)
                out[tgt] = vals
            cols = out
        src_cols = cols
        if set(ctx2) & set(src_cols):
            return ("cfg",)
    cr = _ref_entries(ctx2, m2)
    if cr == "cfg":
        return ("cfg",)
    if with_src and src_cols:
        sr = _ref_entries(src_cols, ms)
        if sr == "cfg":
            return ("cfg",)
    else:
        sr = None
    if m2 == "by_position":
        if sr is not None and len(sr) != len(cr):
            return ("cfg",)
        r2 = [dict(x, **(sr[i] if sr is not None else {})) for i, x in enumerate(cr)]
    else:
        r2 = [dict(x, **y) for x in cr for y in (sr if sr is not None else [{}])]
    keys2 = set(ctx2) | set(src_cols)
    if {"a", "b"} & keys2:
        return ("cfg",)
    blocks.append((r2, keys2))
    if comb == "by_position":
        if len(r1) != len(r2):
            return ("cfg",)
        total = len(r1)
        if total > max_runs:
            return ("cap", total)
        runs = [dict(r1[i], **r2[i]) for i in range(total)]
    else:
        if len(r1) == 0 or len(r2) == 0:
            runs = []
        else:
            total = len(r1) * len(r2)
            if total > max_runs:
                return ("cap", total)
            runs = [dict(x, **y) for x in r1 for y in r2]
    return ("ok", runs, [len(r1), len(r2)], {"a", "b"} | keys2)


def _space_body(a, b, c, d, e, m1, m2, ms, comb, with_src, sel_i, ren_i, max_runs, check_work: bool):
    import os

    import semantiva.execution.run_space as rs
    from semantiva.configurations.schema import RunBlock, RunSource, RunSpaceV1Config
    from semantiva.exceptions.pipeline_exceptions import PipelineConfigurationError, RunSpaceMaxRunsExceededError

    _install()
    sel = _SELECTS[sel_i]
    ren = _RENAMES[ren_i]
    COLS.clear()
    COLS.update({"d": list(d), "e": list(e), "k": list(d)})
    src = RunSource(format="csv", path=os.path.join(_ensure_scratch(), "src.csv"), select=list(sel) if sel is not None else None, rename=dict(ren), mode=_mode(ms)) if with_src else None
    spec = RunSpaceV1Config(
        combine=_mode(comb),
        max_runs=max_runs,
        blocks=[RunBlock(mode=_mode(m1), context={"b": list(b), "a": list(a)}), RunBlock(mode=_mode(m2), context={"c": list(c)}, source=src)],
    )
    exp = _ref_space(list(a), list(b), list(c), list(d), list(e), _mode(m1), _mode(m2), _mode(ms), _mode(comb), with_src, sel, ren, max_runs)
    DRAWN[0] = 0
    DRAWN_COMBINE[0] = 0
    try:
        runs, meta = rs.expand_run_space(spec)
    except PipelineConfigurationError as ex:
        return True if exp[0] == "cfg" else Fail("C08.P1:spurious-config-error", "legal spec rejected: %s" % str(ex)[:160])
    except RunSpaceMaxRunsExceededError as ex:
        if exp[0] != "cap":
            return Fail("C08.P1:spurious-max-runs-error", "max-runs error although documented result is %s" % exp[0])
        if ex.actual_runs != exp[1]:
            return Fail("C08.P1:max-runs-actual", "error reports %r runs, true size %r" % (ex.actual_runs, exp[1]))
        if check_work:
            budget = max_runs + len(a) + len(b) + len(c) + (len(d) * 2 + len(e) if with_src else 0) + 1
            if DRAWN_COMBINE[0] > max_runs + 1:
                return Fail("C08.P2:materialised-before-cap:combine", "max-runs error after drawing %d combinations of the cross-block product (cap %d)" % (DRAWN_COMBINE[0], max_runs))
            if DRAWN[0] > budget:
                return Fail("C08.P2:materialised-before-cap:block", "max-runs error after drawing %d combinations inside blocks (cap %d, linear budget %d)" % (DRAWN[0], max_runs, budget))
        return True
    if exp[0] == "cfg":
        return Fail("C08.P1:config-error-not-raised", "illegal spec accepted")
    if exp[0] == "cap":
        return Fail("C08.P1:max-runs-not-enforced", "%d runs returned with max_runs=%d" % (len(runs), max_runs))
    if len(runs) != len(exp[1]):
        return Fail("C08.P1:run-count", "%d runs, documented %d" % (len(runs), len(exp[1])))
    for g, x in zip(runs, exp[1]):
        if not (g == x):
            return Fail("C08.P1:run-order-or-content", "run %r, documented %r" % (g, x))
        if set(g) != exp[3]:
            return Fail("C08.P1:key-union", "run keys %r, union of block keys %r" % (sorted(g), sorted(exp[3])))
    if meta.get("expanded_runs") != len(exp[1]) or [bm["size"] for bm in meta["blocks"]] != exp[2]:
        return Fail("C08.P1:meta-counts", "meta %r" % ({"expanded_runs": meta.get("expanded_runs"), "blocks": [bm["size"] for bm in meta["blocks"]]},))
    return True


def _make_space(check_work: bool, maxlen: int, maxruns: int, with_src: bool, sel_i: int, ren_i: int):
    if with_src:

        def p(a: List[int], b: List[int], c: List[int], d: List[int], e: List[int], m1: bool, m2: bool, ms: bool, comb: bool, max_runs: int):
            from vt.engine import assume

            assume(len(a) <= maxlen and len(b) <= maxlen and len(c) <= 2 and len(d) <= 2 and len(e) <= 2)
            assume(0 <= max_runs <= maxruns)
            return _space_body(a, b, c, d, e, m1, m2, ms, comb, True, sel_i, ren_i, max_runs, check_work)

        return p

    def q(a: List[int], b: List[int], c: List[int], m1: bool, m2: bool, comb: bool, max_runs: int):
        from vt.engine import assume

        assume(len(a) <= maxlen and len(b) <= maxlen and len(c) <= maxlen)
        assume(0 <= max_runs <= maxruns)
        return _space_body(a, b, c, [], [], m1, m2, False, comb, False, 0, 0, max_runs, check_work)

    return q


def _replay_space(param, a):
    v = _space_body(a["a"], a["b"], a["c"], a.get("d", []), a.get("e", []), a["m1"], a["m2"], a.get("ms", False), a["comb"], param[3], param[4], param[5], a["max_runs"], param[0])
    if v is True:
        return {"reproduced": False, "fingerprint": "", "detail": "documented behaviour on the concrete input"}
    detail = v.detail
    if v.fingerprint.startswith("C08.P2"):
        # scale the same shape up and measure real work (no stub, counting product only)
        import time
        import tracemalloc

        import semantiva.execution.run_space as rs
        from semantiva.configurations.schema import RunBlock, RunSpaceV1Config
        from semantiva.exceptions.pipeline_exceptions import RunSpaceMaxRunsExceededError

        spec = RunSpaceV1Config(combine="combinatorial", max_runs=10, blocks=[RunBlock(mode="combinatorial", context={"a": list(range(300)), "b": list(range(300))})])
        tracemalloc.start()
        t0 = time.perf_counter()
        DRAWN[0] = 0
        try:
            rs.expand_run_space(spec)
        except RunSpaceMaxRunsExceededError:
            pass
        peak = tracemalloc.get_traced_memory()[1]
        tracemalloc.stop()
        detail += " | scaled replay 300x300 keys, max_runs=10: %d combinations drawn, peak %.1f MB, %.2fs" % (DRAWN[0], peak / 1e6, time.perf_counter() - t0)
    return {"reproduced": True, "fingerprint": v.fingerprint, "detail": detail}


# --------------------------------------------------------------------------------------------- U2
def _u2(shape: int, n: int):
    from semantiva.configurations.load_pipeline_from_yaml import _parse_run_space_block
    from semantiva.exceptions.pipeline_exceptions import PipelineConfigurationError
    from vt.engine import assume

    assume(0 <= shape <= 9 and 0 <= n <= 3)
    good_block = {"mode": "by_position", "context": {"a": [1, 2], "b": [3, 4]}}
    table = [
        ({"blocks": [good_block], "combine": "combinatorial", "max_runs": n}, True),
        ({"blocks": [good_block, {"mode": "combinatorial", "context": {"c": [n]}}]}, True),
        ({"blocks": []}, True),
        ({"blocks": [{"mode": "zip", "context": {"a": [1]}}]}, False),
        ({"blocks": [{"mode": "by_position", "context": {"a": 5}}]}, False),
        ({"blocks": [good_block], "combine": "product"}, False),
        ({"blocks": "nope"}, False),
        ({"blocks": [good_block], "max_runs": -1 - n}, None),
        ({"blocks": [{"mode": "by_position", "context": {"a": [1]}, "source": {"format": "xml", "path": "f"}}]}, False),
        ({"blocks": [{"context": {"a": [1]}}]}, None),
    ]
    raw, ok = table[shape]
    try:
        cfg = _parse_run_space_block(raw, base_dir=None) if _accepts_base_dir() else _parse_run_space_block(raw)
    except (PipelineConfigurationError, ValueError, TypeError):
        return True if ok in (False, None) else Fail("C08.U2:legal-block-rejected", "documented run_space mapping %r rejected" % (raw,))
    if ok is False:
        return Fail("C08.U2:malformed-block-accepted:%d" % shape, "malformed run_space mapping %r accepted" % (raw,))
    if ok is True:
        if len(cfg.blocks) != len(raw["blocks"]) or cfg.max_runs != raw.get("max_runs", 1000) or cfg.combine != raw.get("combine", "combinatorial"):
            return Fail("C08.U2:wrong-parse", "parsed %r" % (cfg,))
    return True


_SRC_SELECT = ("absent", [], ["d"], ["d", "e"])
_SRC_RENAME = ("absent", {}, {"d": "x"})
_SRC_MODE = ("absent", "by_position", "combinatorial")


def _u2b(si: int, ri: int, mi: int, with_ctx: bool):
    """the parser must hand over a source entry field by field: what the YAML says is what expansion gets
    (an EMPTY select list selects no column; it is not 'no select')."""
    from semantiva.configurations.load_pipeline_from_yaml import _parse_run_space_block
    from vt.engine import assume

    assume(0 <= si < len(_SRC_SELECT) and 0 <= ri < len(_SRC_RENAME) and 0 <= mi < len(_SRC_MODE))
    csi, cri, cmi = next(i for i in range(len(_SRC_SELECT)) if si == i), next(i for i in range(len(_SRC_RENAME)) if ri == i), next(i for i in range(len(_SRC_MODE)) if mi == i)
    src: Dict[str, Any] = {"format": "csv", "path": "f.csv"}
    if _SRC_SELECT[csi] != "absent":
        src["select"] = list(_SRC_SELECT[csi])
    if _SRC_RENAME[cri] != "absent":
        src["rename"] = dict(_SRC_RENAME[cri])
    if _SRC_MODE[cmi] != "absent":
        src["mode"] = _SRC_MODE[cmi]
    block: Dict[str, Any] = {"mode": "by_position", "source": src}
    if with_ctx:
        block["context"] = {"a": [1, 2]}
    raw = {"blocks": [block]}
    cfg = _parse_run_space_block(raw, base_dir=None) if _accepts_base_dir() else _parse_run_space_block(raw)
    got = cfg.blocks[0].source
    if got is None:
        return Fail("C08.U2b:source-dropped", "the block's source entry was dropped by the parser")
    exp_select = None if _SRC_SELECT[csi] == "absent" else list(_SRC_SELECT[csi])
    if got.select != exp_select:
        return Fail("C08.U2b:select", "YAML says select=%r, parsed %r" % (exp_select, got.select))
    exp_rename = {} if _SRC_RENAME[cri] == "absent" else dict(_SRC_RENAME[cri])
    if dict(got.rename or {}) != exp_rename:
        return Fail("C08.U2b:rename", "YAML says rename=%r, parsed %r" % (exp_rename, got.rename))
    if _SRC_MODE[cmi] != "absent" and got.mode != _SRC_MODE[cmi]:
        return Fail("C08.U2b:mode", "YAML says source mode %r, parsed %r" % (_SRC_MODE[cmi], got.mode))
    if got.format != "csv" or not str(got.path).endswith("f.csv"):
        return Fail("C08.U2b:format-path", "parsed format/path %r %r" % (got.format, got.path))
    return True


def _combos(big: bool):
    allc = [(si, ri) for si in range(len(_SELECTS)) for ri in range(len(_RENAMES))]
    if big:
        return allc
    keep = [(0, 0), (0, 1), (0, 2), (0, 3), (0, 4), (0, 5), (0, 6), (1, 0), (1, 1), (2, 2), (2, 5), (3, 6), (3, 3), (4, 0)]
    return keep


def _accepts_base_dir() -> bool:
    import inspect

    from semantiva.configurations.load_pipeline_from_yaml import _parse_run_space_block

    return "base_dir" in inspect.signature(_parse_run_space_block).parameters


def obligations(tier: str) -> List[Ob]:
    big = tier == "thorough"
    R = C01._replay_simple
    ml = 3
    return [
        Ob("C08.U1", lambda _p: _u1, R(_u1), budget=300, bound="1..3 keys (insertion order unsorted), symbolic lists of length 0..3, mode symbolic", targets=["semantiva/execution/run_space.py:_expand_entries"]),
        Ob("C08.P1", lambda p: _make_space(*p), _replay_space,
           params=[(False, ml, 12 if not big else 40, False, 0, 0)] + [(False, 1 if not big else 2, 12 if not big else 40, True, si, ri) for (si, ri) in _combos(big)], budget=600 if not big else 3000, per_path=60,
           bound="2 blocks; inline lists a,b (block 1), c (block 2) of length 0..%d without source / a,b 0..1 (thorough 0..2), c 0..2 with source, source columns d,e,k of length 0..2; block/source/combine modes symbolic; select x rename option pairs (%s of %d); max_runs symbolic 0..%d" % (ml, "all" if big else "14", len(_SELECTS) * len(_RENAMES), 12 if not big else 40),
           targets=["semantiva/execution/run_space.py:expand_run_space", "semantiva/execution/run_space.py:_load_and_process_source", "semantiva/execution/run_space.py:_expand_entries"], stubs=["_load_source_file -> symbolic columns", "counting itertools.product"]),
        Ob("C08.P2", lambda p: _make_space(*p), _replay_space, params=[(True, ml, 12, False, 0, 0)], budget=900 if not big else 3000, per_path=60,
           bound="as P1 without source (inline lists of length 0..3), asserting drawn combinations <= max_runs + sum(lengths) + 1 whenever the max-runs error is raised",
           targets=["semantiva/execution/run_space.py:expand_run_space"], stubs=["counting itertools.product"]),
        Ob("C08.U2b", lambda _p: _u2b, R(_u2b), budget=120, bound="source entry with select in {absent, [], [d], [d,e]}, rename in {absent, {}, {d:x}}, mode in {absent, by_position, combinatorial}, inline context present or not (symbolic selectors)", targets=["semantiva/configurations/load_pipeline_from_yaml.py:_parse_run_space_block"]),
        Ob("C08.U2", lambda _p: _u2, R(_u2), budget=120, bound="10 documented / malformed run_space mappings with a symbolic number", targets=["semantiva/configurations/load_pipeline_from_yaml.py:_parse_run_space_block"]),
    ]
