"""C15 -- every queued job's future completes once, with that job's own result.

P1  correlation (Engine A, sequential hand-over): k jobs (k = 1..3, one obligation each) with DISTINCT pipelines and
    symbolic payload / context values are enqueued; the real master loop publishes them, the real worker loop
    executes them, the real master loop collects the statuses (the three phases run one after the other in
    one thread; the blocking primitives are replaced by immediate stand-ins).  Each future must be done exactly
    once with the (data, context) a direct Pipeline.process gives for THAT job, plus the job_id annotation;
    none pending, no cross-talk -- for all values.
P2  failing job: which job fails is symbolic; that future must complete exceptionally, the others normally.
S   schedule-symbolic part (as C14): master and worker(s) as real threads over the real in-memory transport
    under the line scheduler; initial thread and up to P preemptions at transport lines are solver variables;
    every such schedule must leave every future completed with its own job's result.
"""
from __future__ import annotations

import queue as _queue
from typing import Any, Dict, List, Tuple

from vt.props import C01, C04
from vt.runner import Fail, Ob

LEVEL = "model_checking"
STUBS = C01.STUBS + ("repr",)
ASSUMPTIONS = [
    "blocking primitives replaced by immediate stand-ins: job_queue.get(timeout) raises Empty at once when empty, stop events become counters, poll_interval = 0 (queue.Queue / Event / sleep are C-level blocking primitives)",
    "S: preemption only at line events of in_memory.py, <= P preemptions; the master/worker loop bodies themselves are not preempted between transport calls",
    "CrossHair 0.0.110 + z3 5.1 models",
]
OUTSIDE = ["all interleavings of master and worker code outside the transport module", "batches larger than 3 jobs / more than 2 workers", "switch intervals and enqueue timing (wall-clock)"]


def setup_symbolic() -> None:
    from vt import lib, stubs

    stubs.apply(STUBS)
    lib.register()
    _quiet_context_str()


def _quiet_context_str():
    from semantiva.context_processors.context_types import ContextType

    ContextType.__str__ = lambda self: "ContextType"


class _Q:
    """Stand-in for queue.Queue: same API used by the orchestrator, never blocks."""

    def __init__(self):
        self.items: List[Any] = []

    def put(self, item):
        self.items.append(item)

    def get(self, timeout=None):
        if not self.items:
            raise _queue.Empty()
        return self.items.pop(0)


class _Stop:
    """Event stand-in: is_set() becomes true after n polls."""

    def __init__(self, n: int):
        self.n = n
        self.calls = 0

    def is_set(self) -> bool:
        self.calls += 1
        return self.calls > self.n

    def set(self):
        self.n = -1


def _job_pipelines():
    from vt import lib

    return [
        [{"processor": lib.OpAdd, "parameters": {"addend": 10}}, {"processor": lib.PrVal, "context_key": "seen"}],
        [{"processor": lib.OpAff, "parameters": {"factor": 1}}, {"processor": lib.OpAddDef, "parameters": {}}],
        [{"processor": lib.OpAddDef, "parameters": {"addend": -1}}, {"processor": "rename:tag:label"}],
    ]


def _failing_pipeline():
    from vt import lib

    return [{"processor": lib.OpAddDef, "parameters": {}}, {"processor": lib.OpBoom, "parameters": {}}]


def _direct(pcfg, x, tag):
    from vt import lib

    try:
        d, c = lib.run_pipeline([dict(n) for n in pcfg], lib.IntData(x), {"tag": tag})
        return ("ok", d.data, c)
    except Exception as e:  # noqa: BLE001
        return ("exc", type(e).__name__, None)


def _sequential(k: int, xs, tags, fail_at: int, stale_job_id: bool = False):
    from semantiva.context_processors import ContextType
    from semantiva.execution.executor.executor import SequentialSemantivaExecutor
    from semantiva.execution.job_queue.queue_orchestrator import QueueSemantivaOrchestrator
    from semantiva.execution.job_queue.worker import worker_loop
    from semantiva.execution.transport import InMemorySemantivaTransport
    from vt import lib

    tr = InMemorySemantivaTransport()
    master = QueueSemantivaOrchestrator(tr, stop_event=_Stop(k), logger=lib.QUIET)
    master.job_queue = _Q()
    pcs = _job_pipelines()
    if k > 3:
        # a burst: more jobs than any per-iteration batch size one might think of; payloads derived from the 3 symbolic ones
        pcs = [pcs[i % 3] for i in range(k)]
        xs = [xs[i % 3] + i for i in range(k)]
        tags = [tags[i % 3] + 10 * i for i in range(k)]
    futs = []
    for i in range(k):
        pc = _failing_pipeline() if i == fail_at else pcs[i]
        # (two-stage use: the context handed in may be the result context of an earlier job and carry that job's id)
        ctx_in = {"tag": tags[i], "job_id": "id-of-an-earlier-job"} if stale_job_id else {"tag": tags[i]}
        futs.append((master.enqueue([dict(n) for n in pc], data=lib.IntData(xs[i]), context=ContextType(ctx_in), return_future=True, registry_profile=None), pc))
    master.run_forever()  # k iterations: publishes the k job configurations
    worker_loop(0, tr, SequentialSemantivaExecutor(), _Stop(1), logger=lib.QUIET, poll_interval=0.0)
    master.stop_event = _Stop(k + 1)
    master.run_forever()  # collects the statuses
    for i, (fut, pc) in enumerate(futs):
        exp = _direct(pc, xs[i], tags[i])
        if not fut.done():
            what = "failing-job" if exp[0] == "exc" else "job"
            return Fail("C15.P:future-never-completes:%s" % what, "future of job %d/%d (%s) is still pending after master and worker drained everything" % (i, k, "its pipeline raises %s" % exp[1] if exp[0] == "exc" else "normal job"))
        if exp[0] == "exc":
            if fut.exception() is None:
                return Fail("C15.P:failing-job-completed-normally", "job %d raises %s when run directly, its future has a normal result" % (i, exp[1]))
            continue
        if fut.exception() is not None:
            return Fail("C15.P:job-failed-unexpectedly", "future of job %d has exception %r" % (i, fut.exception()))
        data, ctx = fut.result()
        got_ctx = ctx.to_dict()
        jid = got_ctx.pop("job_id", None)
        if not jid:
            return Fail("C15.P:no-job-id-annotation", "result context of job %d lacks job_id" % i)
        if stale_job_id and jid == "id-of-an-earlier-job":
            return Fail("C15.P:stale-job-id-annotation", "result context of job %d carries the job id that was in its INPUT context, not its own" % i)
        if not (data.data == exp[1]):
            return Fail("C15.P:wrong-result:data", "future of job %d carries data %r, direct run gives %r (cross-talk?)" % (i, data.data, exp[1]))
        if not (got_ctx == exp[2]):
            return Fail("C15.P:wrong-result:context", "future of job %d carries context %r, direct run gives %r" % (i, got_ctx, exp[2]))
    if master.pending_futures:
        return Fail("C15.P:pending-futures-left", "%d futures still registered" % len(master.pending_futures))
    return True


def _make_p(param):
    k, with_failure = param

    def p(x0: int, x1: int, x2: int, g0: int, g1: int, g2: int, fail_at: int, stale_job_id: bool):
        from vt.engine import assume

        if with_failure:
            assume(0 <= fail_at < k)
        else:
            assume(fail_at == -1)
        return _sequential(k, [x0, x1, x2], [g0, g1, g2], fail_at, True if stale_job_id else False)

    return p


def _replay_p(param, a):
    from vt import lib

    lib.register()
    k, _ = param
    return C04._wrap(_sequential(k, [a["x0"], a["x1"], a["x2"]], [a["g0"], a["g1"], a["g2"]], a["fail_at"], a.get("stale_job_id", False)))


# --------------------------------------------------------------------------------------------- S
def run_threads(njobs: int, nworkers: int, choose, record: Dict[str, Any]):
    from semantiva.context_processors import ContextType
    from semantiva.execution.executor.executor import SequentialSemantivaExecutor
    from semantiva.execution.job_queue.queue_orchestrator import QueueSemantivaOrchestrator
    from semantiva.execution.job_queue.worker import worker_loop
    from semantiva.execution.transport import InMemorySemantivaTransport
    from vt import lib
    from vt.linesched import HarnessStall, LineScheduler
    from vt.props.C14 import FILES

    lib.register()
    tr = InMemorySemantivaTransport()
    master = QueueSemantivaOrchestrator(tr, stop_event=_Stop(njobs + 3), logger=lib.QUIET)
    master.job_queue = _Q()
    pcs = _job_pipelines()
    futs = []
    for i in range(njobs):
        futs.append(master.enqueue([dict(n) for n in pcs[i]], data=lib.IntData(100 + i), context=ContextType({"tag": i}), return_future=True, registry_profile=None))
    ls = LineScheduler(FILES)
    ls.add(master.run_forever)
    for w in range(nworkers):
        ls.add(lambda w=w: worker_loop(w, tr, SequentialSemantivaExecutor(), _Stop(njobs + 2), logger=lib.QUIET, poll_interval=0.0))
    try:
        sched = ls.run(choose, max_steps=2000)
    except HarnessStall:
        ls.abort()
        raise
    record["schedule"] = sched
    # whatever was left in flight when the bounded loops stopped is collected sequentially (liveness is not the
    # subject of a bounded schedule; loss is)
    worker_loop(9, tr, SequentialSemantivaExecutor(), _Stop(1), logger=lib.QUIET, poll_interval=0.0)
    master.stop_event = _Stop(njobs + 1)
    master.run_forever()
    for i, fut in enumerate(futs):
        if not fut.done():
            return Fail("C15.S:future-never-completes", "job %d of %d lost: its future is pending after all threads finished and a final sequential drain (schedule %r)" % (i, njobs, sched))
        data, ctx = fut.result()
        exp = _direct(pcs[i], 100 + i, i)
        got = ctx.to_dict()
        got.pop("job_id", None)
        if data.data != exp[1] or got != exp[2]:
            return Fail("C15.S:wrong-result", "job %d got %r/%r, its own result is %r/%r" % (i, data.data, got, exp[1], exp[2]))
    return True


def _make_s(param):
    njobs, nworkers, P, maxsteps, first_fixed = param
    n = 1 + nworkers

    def body(k1: int, t1: int, k2: int, t2: int):
        from crosshair.tracers import NoTracing
        from vt.engine import assume
        from vt.props.C14 import _policy

        ks, ts = [k1, k2][:P], [t1, t2][:P]
        prev = -1
        pre: List[Tuple[int, int]] = []
        for k, t in zip(ks, ts):
            assume(prev < k <= maxsteps and 0 <= t < n)
            ck = next(i for i in range(prev + 1, maxsteps + 1) if k == i)
            if ck == maxsteps:
                assume(t == 0)
            ct = next(i for i in range(n) if t == i)
            pre.append((ck, ct))
            prev = ck if ck < maxsteps else maxsteps - 1
        with NoTracing():
            rec: Dict[str, Any] = {}
            v = run_threads(njobs, nworkers, _policy(n, first_fixed, pre), rec)
            if v is True and len(rec.get("schedule", [])) > maxsteps:
                return Fail("C15.S:harness-step-bound", "run took %d steps, bound %d" % (len(rec["schedule"]), maxsteps))
            return v

    return body


def _replay_s(param, a):
    from vt.props.C14 import _policy

    njobs, nworkers, P, maxsteps, first_fixed = param
    pre = [(a["k%d" % (i + 1)], a["t%d" % (i + 1)]) for i in range(P)]
    rec: Dict[str, Any] = {}
    v = run_threads(njobs, nworkers, _policy(1 + nworkers, first_fixed, pre), rec)
    return C04._wrap(v)


def _steps(njobs: int, nworkers: int) -> int:
    out = 0
    for pick in (0, -1):
        rec: Dict[str, Any] = {}
        run_threads(njobs, nworkers, lambda en, k: en[pick], rec)
        out = max(out, len(rec["schedule"]))
    return 2 * out + 20  # preempted runs take more steps (loops poll more often): generous bound, checked per run


# --------------------------------------------------------------------------------------------- E (enqueue atomicity)
def run_enqueue_race(k: int, record: Dict[str, Any]):
    """The caller of enqueue() is a real thread under the line scheduler (preemption points: the lines of
    QueueSemantivaOrchestrator.enqueue); after its k-th line everything else -- master publishes, worker executes, master
    collects -- runs to quiescence while the caller is parked, then the caller resumes.  Whatever k, the returned Future
    must complete with the job's own result."""
    from semantiva.context_processors import ContextType
    from semantiva.execution.executor.executor import SequentialSemantivaExecutor
    from semantiva.execution.job_queue.queue_orchestrator import QueueSemantivaOrchestrator
    from semantiva.execution.job_queue.worker import worker_loop
    from semantiva.execution.transport import InMemorySemantivaTransport
    from vt import lib
    from vt.linesched import HarnessStall, LineScheduler

    lib.register()
    tr = InMemorySemantivaTransport()
    master = QueueSemantivaOrchestrator(tr, stop_event=_Stop(2), logger=lib.QUIET)
    master.job_queue = _Q()
    pc = _job_pipelines()[0]
    box: Dict[str, Any] = {}

    def client():
        box["fut"] = master.enqueue([dict(n) for n in pc], data=lib.IntData(100), context=ContextType({"tag": 5}), return_future=True, registry_profile=None)

    def others():
        master.stop_event = _Stop(2)
        master.run_forever()
        worker_loop(0, tr, SequentialSemantivaExecutor(), _Stop(2), logger=lib.QUIET, poll_interval=0.0)
        master.stop_event = _Stop(3)
        master.run_forever()

    ls = LineScheduler(("semantiva/execution/job_queue/queue_orchestrator.py::enqueue",), reduce_local=False)
    ls.add(client)
    try:
        ls.start()
        steps = 0
        while ls.enabled():
            if steps == k:
                others()
            ls.step(0)
            steps += 1
    except HarnessStall:
        ls.abort()
        raise
    record["client_steps"] = steps
    record["lines"] = list(ls.trace_log)
    others()  # final drain
    fut = box.get("fut")
    if fut is None:
        return Fail("C15.E:no-future", "enqueue(return_future=True) returned no Future")
    if not fut.done():
        return Fail("C15.E:future-never-completes", "the caller of enqueue() was descheduled after %d of its %d lines while master and worker handled the job: the Future is pending for good (status consumed before the Future was registered)" % (k, steps))
    data, ctx = fut.result()
    exp = _direct(pc, 100, 5)
    got = ctx.to_dict()
    got.pop("job_id", None)
    if data.data != exp[1] or got != exp[2]:
        return Fail("C15.E:wrong-result", "job got %r/%r, its own result is %r/%r" % (data.data, got, exp[1], exp[2]))
    return True


def _make_e(param):
    nlines = param

    def body(k: int):
        from crosshair.tracers import NoTracing
        from vt.engine import assume

        assume(0 <= k <= nlines)
        ck = next(i for i in range(nlines + 1) if k == i)
        with NoTracing():
            rec: Dict[str, Any] = {}
            v = run_enqueue_race(ck, rec)
            if v is True and rec.get("client_steps", 0) > nlines:
                return Fail("C15.E:harness-step-bound", "enqueue took %d line steps, bound %d" % (rec["client_steps"], nlines))
            return v

    return body


def _replay_e(param, a):
    return C04._wrap(run_enqueue_race(a["k"], {}))


def run_master_parked(k: int, record: Dict[str, Any]):
    """Roles swapped: the MASTER loop is the thread under the line scheduler (preemption points: every line of
    queue_orchestrator.py it executes); after its k-th line another client enqueues a second job (complete call), then the
    master goes on.  Both futures must complete with their own results after worker and master have drained everything."""
    from semantiva.context_processors import ContextType
    from semantiva.execution.executor.executor import SequentialSemantivaExecutor
    from semantiva.execution.job_queue.queue_orchestrator import QueueSemantivaOrchestrator
    from semantiva.execution.job_queue.worker import worker_loop
    from semantiva.execution.transport import InMemorySemantivaTransport
    from vt import lib
    from vt.linesched import HarnessStall, LineScheduler

    lib.register()
    tr = InMemorySemantivaTransport()
    master = QueueSemantivaOrchestrator(tr, stop_event=_Stop(3), logger=lib.QUIET)
    master.job_queue = _Q()
    pcs = _job_pipelines()
    futs = [master.enqueue([dict(n) for n in pcs[0]], data=lib.IntData(100), context=ContextType({"tag": 0}), return_future=True, registry_profile=None)]
    ls = LineScheduler(("semantiva/execution/job_queue/queue_orchestrator.py",), reduce_local=False)
    ls.add(master.run_forever)
    try:
        ls.start()
        steps = 0
        while ls.enabled():
            if steps == k:
                futs.append(master.enqueue([dict(n) for n in pcs[1]], data=lib.IntData(101), context=ContextType({"tag": 1}), return_future=True, registry_profile=None))
            ls.step(0)
            steps += 1
    except HarnessStall:
        ls.abort()
        raise
    record["master_steps"] = steps
    if len(futs) == 1:
        futs.append(master.enqueue([dict(n) for n in pcs[1]], data=lib.IntData(101), context=ContextType({"tag": 1}), return_future=True, registry_profile=None))
    err = ls.workers[0].error
    if err is not None:
        return Fail("C15.E2:master-loop-died:%s" % type(err).__name__, "the master loop raised %r when a client enqueued a job while it was at its %d-th line: every outstanding Future hangs" % (err, k))
    for _ in range(2):
        master.stop_event = _Stop(3)
        master.run_forever()
        worker_loop(0, tr, SequentialSemantivaExecutor(), _Stop(3), logger=lib.QUIET, poll_interval=0.0)
    master.stop_event = _Stop(4)
    master.run_forever()
    for i, fut in enumerate(futs):
        if not fut.done():
            return Fail("C15.E2:future-never-completes", "job %d: Future pending after everything was drained (second job enqueued while the master was at line step %d of %d)" % (i, k, steps))
        data, ctx = fut.result()
        exp = _direct(pcs[i], 100 + i, i)
        got = ctx.to_dict()
        got.pop("job_id", None)
        if data.data != exp[1] or got != exp[2]:
            return Fail("C15.E2:wrong-result", "job %d got %r/%r, its own result is %r/%r" % (i, data.data, got, exp[1], exp[2]))
    return True


def _make_e2(param):
    nlines = param

    def body(k: int):
        from crosshair.tracers import NoTracing
        from vt.engine import assume

        assume(0 <= k <= nlines)
        ck = next(i for i in range(nlines + 1) if k == i)
        with NoTracing():
            rec: Dict[str, Any] = {}
            v = run_master_parked(ck, rec)
            if v is True and rec.get("master_steps", 0) > nlines:
                return Fail("C15.E2:harness-step-bound", "master took %d line steps, bound %d" % (rec["master_steps"], nlines))
            return v

    return body


def _master_lines() -> int:
    rec: Dict[str, Any] = {}
    run_master_parked(-1, rec)
    return rec["master_steps"] + 12


def _enqueue_lines() -> int:
    rec: Dict[str, Any] = {}
    run_enqueue_race(-1, rec)
    return rec["client_steps"] + 2


def obligations(tier: str) -> List[Ob]:
    big = tier == "thorough"
    obs = [
        Ob("C15.P1", _make_p, _replay_p, params=[(1, False), (2, False), (3, False), (12, False)], budget=900, per_path=120,
           bound="k = 1..3 jobs with distinct pipelines, and a burst of 12 jobs (payloads derived from the three symbolic ones) all waiting when the master polls; payload and context value of every job symbolic; input contexts optionally carrying an earlier job's job_id (flag); sequential hand-over master -> worker -> master through the real loops and the real in-memory transport",
           targets=["semantiva/execution/job_queue/queue_orchestrator.py:QueueSemantivaOrchestrator.enqueue", "semantiva/execution/job_queue/queue_orchestrator.py:QueueSemantivaOrchestrator.run_forever", "semantiva/execution/job_queue/worker.py:worker_loop"], stubs=list(STUBS) + ["job_queue -> non-blocking stand-in", "stop events -> poll counters", "ContextType.__str__ -> constant"]),
        Ob("C15.P2", _make_p, _replay_p, params=[(1, True), (2, True), (3, True)], budget=900, per_path=120,
           bound="as P1 with one failing job at a symbolic batch position", targets=["semantiva/execution/job_queue/worker.py:worker_loop"], stubs=list(STUBS)),
    ]
    obs.append(Ob("C15.E", _make_e, _replay_e, params=[_enqueue_lines()], budget=600, per_path=120,
                  bound="the caller of enqueue() parked after its k-th line (k symbolic over all line events of enqueue, measured from the source) while master and worker handle the job to quiescence, then resumed; 1 job",
                  targets=["semantiva/execution/job_queue/queue_orchestrator.py:QueueSemantivaOrchestrator.enqueue", "semantiva/execution/job_queue/queue_orchestrator.py:QueueSemantivaOrchestrator.run_forever", "semantiva/execution/job_queue/worker.py:worker_loop"]))
    obs.append(Ob("C15.E2", _make_e2, lambda p, a: C04._wrap(run_master_parked(a["k"], {})), params=[_master_lines()], budget=900, per_path=120,
                  bound="the master loop parked after its k-th line of queue_orchestrator.py (k symbolic over all its line events in a 3-iteration run, measured from the source) while a client enqueues a second job; 2 jobs",
                  targets=["semantiva/execution/job_queue/queue_orchestrator.py:QueueSemantivaOrchestrator.run_forever", "semantiva/execution/job_queue/queue_orchestrator.py:QueueSemantivaOrchestrator.enqueue"]))
    shapes_ = [(1, 1), (2, 1)] + ([(1, 2), (2, 2)] if big else [])
    P = 1 if not big else 2
    sp = []
    for nj, nw in shapes_:
        st = _steps(nj, nw)
        for first in range(1 + nw):
            sp.append((nj, nw, P, st, first))
    obs.append(Ob("C15.S", _make_s, _replay_s, params=sp, budget=1500 if not big else 6000, per_path=120,
                  bound="master + %s worker thread(s), 1-2 jobs; initial thread concrete per obligation, up to P=%d preemptions (step index, target thread) symbolic at line events of in_memory.py" % ("1" if not big else "1-2", P),
                  targets=["semantiva/execution/transport/in_memory.py:InMemorySemantivaTransport.publish", "semantiva/execution/transport/in_memory.py:InMemorySubscription.__iter__", "semantiva/execution/job_queue/worker.py:worker_loop", "semantiva/execution/job_queue/queue_orchestrator.py:QueueSemantivaOrchestrator.run_forever"]))
    return obs


def extra_coverage(results):
    from vt import stubs

    return {"stubs": stubs.described(STUBS), "schedules_executed": int(sum(int(r.get("paths_reached_assert") or 0) for r in results if r["oid"] == "C15.S"))}
