"""C02 -- static inspection is sound: accepted configurations do not fail on flow at run time (Engine A).

U1  inspect_origin vs resolve_runtime_value: same (config?, created-earlier?, deleted?, default?) flags, a
    context holding exactly the created-and-not-deleted keys; origin config/context/default/required must
    coincide with the run-time source / KeyError.
U2  unknown parameters: names rejected at inspection == names in the run-time InvalidNodeParameterError
    (symbolic subset of candidate names in the node config, 5 component kinds).
U3  _is_compatible vs the run-time type gate over the type lattice.
P1  soundness per shape template: real build_pipeline_inspection + validate_pipeline on the configuration
    (placements symbolic); if accepted and the initial context supplies the reported required keys (presence
    of every key and all values symbolic), the real run must not fail on flow.
P2  truthfulness: initial context = exactly the reported required keys; reported created/suppressed keys of
    node i == keys that appear/disappear when it runs (recording transport); each parameter's reported origin
    is where its run-time value comes from, for all values.
"""
from __future__ import annotations

import os
from typing import Optional, Any, Dict, List

from vt import shapes
from vt.props import C01
from vt.runner import Fail, Ob

LEVEL = "model_checking"
STUBS = C01.STUBS
ASSUMPTIONS = C01.ASSUMPTIONS + [
    "P1/P2 precondition: the initial payload is an instance of the declared input type of the first data-consuming node (inspection cannot know the caller's payload type)",
    "flow failure = KeyError 'Unable to resolve parameter', TypeError 'Incompatible data type', InvalidNodeParameterError (the four causes named by the property); processor errors, undeclared writes and payload-source key collisions are not flow failures",
]
OUTSIDE = ["templates longer than stated; sweep-published keys are covered by C03-P2", "reporter text output (inspect stdout formatting)"]


def setup_symbolic() -> None:
    C01.setup_symbolic()


# --------------------------------------------------------------------------------------------- U1
def _u1(in_cfg: bool, created: bool, deleted: bool, has_default: bool, v_cfg: Optional[int], v_ctx: Optional[int]):
    from semantiva.context_processors import ContextType
    from semantiva.pipeline._param_resolution import inspect_origin, resolve_runtime_value
    from vt import lib

    cls = lib.OpAddDef if has_default else lib.OpAdd
    cfg = {"addend": v_cfg} if in_cfg else {}
    key_origin = {"addend": 2, "zz": 1} if created else {"zz": 1}
    deleted_keys = {"addend"} if deleted else set()
    live = created and not deleted
    ctx = ContextType({"addend": v_ctx} if live else {})
    origin, idx, dflt = inspect_origin(name="addend", processor_cls=cls, processor_config=cfg, key_origin=key_origin, deleted_keys=deleted_keys)
    try:
        got = resolve_runtime_value(name="addend", processor_cls=cls, processor_config=cfg, context=ctx)
        src = "config" if in_cfg else ("context" if live else "default")
        exp = v_cfg if in_cfg else (v_ctx if live else 7)
        if not ((got is None and exp is None) if (got is None or exp is None) else (got == exp)):
            return Fail("C02.U1:runtime-value", "runtime value is not the %s value" % src)
    except KeyError:
        src = "required"
    if origin != src:
        return Fail("C02.U1:origin-mismatch:%s-vs-%s" % (origin, src), "inspection says %s, run time uses %s" % (origin, src))
    if origin == "context" and idx != 2:
        return Fail("C02.U1:origin-index", "origin index %r, creator was node 2" % (idx,))
    if origin == "default" and dflt != 7:
        return Fail("C02.U1:default-value", "reported default %r" % (dflt,))
    return True


# --------------------------------------------------------------------------------------------- U2
_CAND = ("addend", "bogus", "value", "tag")


def _u2(kind: int, mask: int, v: int):
    from semantiva.exceptions import InvalidNodeParameterError
    from semantiva.inspection.builder import build_pipeline_inspection
    from semantiva.pipeline.nodes._pipeline_node_factory import _pipeline_node_factory
    from vt import lib
    from vt.engine import assume

    assume(0 <= kind < 5 and 0 <= mask < 16)
    proc = [lib.OpAdd, lib.SrcV, lib.Snk, lib.CpSum, lib.PrParam][kind]
    params = {n: v for i, n in enumerate(_CAND) if (mask >> i) & 1}
    cfg: Dict[str, Any] = {"processor": proc, "parameters": params}
    if kind == 4:
        cfg["context_key"] = "out"
    insp = build_pipeline_inspection([dict(cfg, parameters=dict(params))])
    n = insp.nodes[0]
    insp_bad = sorted(i["name"] for i in n.invalid_parameters)
    try:
        _pipeline_node_factory(dict(cfg, parameters=dict(params)), lib.QUIET)
        run_bad: List[str] = []
    except InvalidNodeParameterError as e:
        run_bad = sorted(e.invalid.keys())
    if insp_bad != run_bad:
        return Fail("C02.U2:unknown-names-differ", "inspection rejects %r, run time rejects %r" % (insp_bad, run_bad))
    allowed = {0: {"addend"}, 1: {"value"}, 2: {"tag"}, 3: {"a", "b"}, 4: {"offset"}}[kind]
    exp = sorted(k for k in params if k not in allowed)
    if run_bad != exp:
        return Fail("C02.U2:unknown-names-wrong", "rejected %r, expected %r" % (run_bad, exp))
    return True


# --------------------------------------------------------------------------------------------- U3
def _u3(o: int, i: int, v: int):
    from semantiva.context_processors import ContextType
    from semantiva.data_types import NoDataType
    from semantiva.inspection.validator import _is_compatible
    from semantiva.pipeline import Payload
    from semantiva.pipeline.nodes._pipeline_node_factory import _pipeline_node_factory
    from vt import lib
    from vt.engine import assume

    assume(0 <= o < 5 and 0 <= i < 4)
    out_t = [lib.IntData, lib.SubIntData, lib.OtherData, lib.IntColl, NoDataType][o]
    data = [lib.IntData(v), lib.SubIntData(v), lib.OtherData(v), lib.IntColl.from_list([lib.IntData(v)]), NoDataType()][o]

    class _SubOp(lib._IntOp):
        """expects the SubIntData subclass"""

        @classmethod
        def input_data_type(cls):
            return lib.SubIntData

        def _process_logic(self, data):
            return data

    proc = [lib.OpSub, _SubOp, lib.OpSum, lib.SrcD][i]  # expects IntData / SubIntData / IntColl / NoDataType
    node = _pipeline_node_factory({"processor": proc, "parameters": {}}, lib.QUIET)
    static_ok = _is_compatible(out_t, node.input_data_type())
    try:
        node.process(Payload(data, ContextType({})))
        dyn_ok = True
    except TypeError:
        dyn_ok = False
    if static_ok and not dyn_ok:
        return Fail("C02.U3:static-accepts-runtime-rejects", "validator accepts %s -> %s, the run-time gate raises" % (out_t.__name__, node.input_data_type().__name__))
    if dyn_ok and not static_ok:
        return Fail("C02.U3:static-rejects-runtime-accepts", "validator rejects %s -> %s, the run-time gate accepts" % (out_t.__name__, node.input_data_type().__name__))
    return True


# --------------------------------------------------------------------------------------------- P1 / P2
class _RecTransport:
    """Public extension point: records the live context after every node."""

    def __init__(self):
        self.snaps: List[Dict[str, Any]] = []

    def connect(self):
        pass

    def close(self):
        pass

    def publish(self, channel, data, context, metadata=None, require_ack=False):
        self.snaps.append(dict(context.to_dict()))

    def subscribe(self, channel, *, callback=None):
        raise NotImplementedError


def _is_flow_failure(e: BaseException) -> str:
    from semantiva.exceptions import InvalidNodeParameterError

    if isinstance(e, InvalidNodeParameterError):
        return "unknown-parameter"
    if isinstance(e, KeyError) and "Unable to resolve parameter" in str(e):
        return "unresolvable-parameter"
    if isinstance(e, TypeError) and "Incompatible data type" in str(e):
        return "type-gate"
    return ""


def _inspect(real_nodes):
    from semantiva.exceptions import PipelineConfigurationError
    from semantiva.inspection.builder import build_pipeline_inspection
    from semantiva.inspection.validator import validate_pipeline

    insp = build_pipeline_inspection([dict(n, parameters=dict(n.get("parameters", {}))) if "parameters" in n else dict(n) for n in real_nodes])
    try:
        validate_pipeline(insp)
    except PipelineConfigurationError:
        return insp, False
    return insp, True


def _first_input_ok(insp, real_data) -> bool:
    for n in insp.nodes:
        if n.input_type is not None and n.node_class != "Invalid":
            if n.component_type == "ContextProcessor":
                continue
            return isinstance(real_data, n.input_type)
    return True


def _flow_pattern(T, insp, kind: str, nfail: int) -> str:
    """Property-specific fingerprint of a soundness failure: which flow pattern was accepted."""
    if kind == "unresolvable-parameter":
        # key required by node i but created only by a later node -> use-before-create
        created_later = False
        if 0 <= nfail < len(insp.nodes):
            need = set(insp.nodes[nfail].context_params)
            for later in insp.nodes[nfail + 1:]:
                if need & set(later.created_keys):
                    created_later = True
        return "use-before-create" if created_later else "unresolvable"
    if kind == "type-gate":
        ctx_only_between = any(n.input_type is None or n.component_type == "ContextProcessor" for n in insp.nodes[:nfail])
        return "type-change-across-context-only-node" if ctx_only_between else "type-gate"
    return kind


def _make_p(mode: str):
    def make(T):
        use_s = shapes.uses_strings(T)

        def p(v0: int, v1: int, v2: int, v3: int, v4: int, v5: int, v6: int, v7: int, v8: int, v9: int, v10: int, v11: int,
              f0: bool, f1: bool, f2: bool, f3: bool, f4: bool, f5: bool, f6: bool, f7: bool, f8: bool, f9: bool, f10: bool, f11: bool, s0: str, s1: str):
            if use_s:
                from vt.engine import assume

                assume(len(s0) <= 3 and len(s1) <= 3)
            V = [v0, v1, v2, v3, v4, v5, v6, v7, v8, v9, v10, v11]
            F = [f0, f1, f2, f3, f4, f5, f6, f7, f8, f9, f10, f11]
            return body(T, V, F, [s0, s1], mode)

        p.__name__ = "%s_%s" % (mode, T["name"])
        return p

    return make


def body(T, V, F, S, mode: str):
    from vt import lib

    ref_nodes, data0, ctx0 = shapes.instantiate(T, V, F, S)
    real_nodes, real_data = shapes.to_real(ref_nodes, data0)
    insp, accepted = _inspect(real_nodes)
    if not accepted:
        return True  # rejected configurations are not the subject
    if not _first_input_ok(insp, real_data):
        return True
    required = set(insp.required_context_keys)
    if mode == "P1":
        if not all(k in ctx0 for k in required):
            return True  # precondition of the property not met
        ctx_init = ctx0
    else:
        if not all(k in ctx0 for k in required):
            return True
        ctx_init = {k: ctx0[k] for k in required}  # exactly the reported required keys
    lib.reset_log()
    tr = _RecTransport()
    try:
        d, c = lib.run_pipeline(real_nodes, real_data, ctx_init, transport=tr)
    except Exception as e:  # noqa: BLE001
        kind = _is_flow_failure(e)
        if kind:
            nfail = len(tr.snaps)
            return Fail("C02.%s:accepted-config-fails:%s" % (mode, _flow_pattern(T, insp, kind, nfail)), "template %s: inspection+validation accepted, required keys %r supplied, run raised %s: %s at node %d" % (T["name"], sorted(required), type(e).__name__, str(e)[:160], nfail))
        return True  # not a flow failure (processor error, undeclared write, collision)
    if mode == "P1":
        return True
    # ---- P2: per-node facts
    prev = dict(ctx_init)
    ptr = 0
    log = list(lib.LOG)
    for i, (nd, ni) in enumerate(zip(ref_nodes, insp.nodes)):
        after = tr.snaps[i]
        appeared = {k for k in after if k not in prev}
        vanished = {k for k in prev if k not in after}
        # created keys: every key that appears must be reported; a reported key may already exist (then it is an update)
        if not appeared <= set(ni.created_keys):
            return Fail("C02.P2:unreported-created-key", "template %s node %d: keys %r appeared, reported created %r" % (T["name"], i + 1, sorted(appeared), sorted(ni.created_keys)))
        for k in ni.created_keys:
            if k not in after:
                return Fail("C02.P2:reported-created-key-absent", "template %s node %d: reported created key %r not in context after the node" % (T["name"], i + 1, k))
        if vanished != {k for k in ni.suppressed_keys if k in prev}:
            return Fail("C02.P2:suppressed-keys", "template %s node %d: keys %r vanished, reported suppressed %r" % (T["name"], i + 1, sorted(vanished), sorted(ni.suppressed_keys)))
        # origins
        if nd[0] in ("comp", "slice"):
            comp = nd[1]
            if ptr < len(log) and log[ptr][0] == comp:
                got = log[ptr][1]
                for pn, origin_idx in ni.context_params.items():
                    if pn not in got:
                        continue
                    if origin_idx is None:
                        if pn not in ctx_init:
                            return Fail("C02.P2:origin-initial-context-absent", "template %s node %d: %s reported from the initial context, which lacks it" % (T["name"], i + 1, pn))
                        exp = ctx_init[pn]
                    else:
                        exp = tr.snaps[origin_idx - 1].get(pn) if 0 < origin_idx <= len(tr.snaps) else None
                    if not (got[pn] == exp):
                        return Fail("C02.P2:origin-context-value", "template %s node %d: %s reported from context (node %r) but the processor received another value" % (T["name"], i + 1, pn, origin_idx))
                for pn, dv in ni.default_params.items():
                    if pn in got and not (got[pn] == dv):
                        return Fail("C02.P2:origin-default-value", "template %s node %d: %s reported as default %r but the processor received another value" % (T["name"], i + 1, pn, dv))
                for pn, cv in nd[2].items():
                    if pn in got and not (got[pn] == cv):
                        return Fail("C02.P2:origin-config-value", "template %s node %d: %s configured but the processor received another value" % (T["name"], i + 1, pn))
                while ptr < len(log) and log[ptr][0] == comp:
                    ptr += 1
                    if nd[0] == "comp":
                        break
        elif nd[0] == "rename":
            # a rename's only parameter is the value it moves: what arrives under the new key is what it received
            src, dst = nd[1], nd[2]
            for pn, origin_idx in ni.context_params.items():
                if pn != src or dst not in after:
                    continue
                if origin_idx is None:
                    exp = ctx_init.get(pn)
                else:
                    exp = tr.snaps[origin_idx - 1].get(pn) if 0 < origin_idx <= len(tr.snaps) else None
                if not (after[dst] == exp):
                    return Fail("C02.P2:origin-context-value", "template %s node %d (rename): %s reported from context (node %r) but the value moved is another one" % (T["name"], i + 1, pn, origin_idx))
        prev = after
    return True


def _replay_p(mode: str):
    def rp(T, a):
        from vt import lib

        lib.register()
        V = [a["v%d" % i] for i in range(shapes.NV)]
        F = [a["f%d" % i] for i in range(shapes.NF)]
        v = body(T, V, F, [a.get("s0", ""), a.get("s1", "")], mode)
        if v is True:
            return {"reproduced": False, "fingerprint": "", "detail": "inspection and run agree on the concrete input"}
        return {"reproduced": True, "fingerprint": v.fingerprint, "detail": v.detail}

    return rp


def templates(tier: str):
    T = shapes.length1() + shapes.curated() + shapes.generated(2)
    if tier == "thorough":
        T += shapes.generated(3)
        seed = int(os.environ.get("VERIF_SEED", "0") or 0)
        T += shapes.drawn(seed * 104729 + 3, 400, lengths=(4, 5))
    return T


# --------------------------------------------------------------------------------------------- P3 sweep-published keys
_VARS = ("gain", "scale", "t")


def _p3(ia: int, ib: int, ix: int, have_x: bool, delete_first: bool, x: int, y: int, z: int, ctxw: bool):
    from vt.engine import assume

    assume(0 <= ia < 3 and 0 <= ib < 3 and 0 <= ix < 3)
    ca, cb, cx = (next(k for k in range(3) if v == k) for v in (ia, ib, ix))
    return _p3_body(_VARS[ca], _VARS[cb], _VARS[cx], True if have_x else False, True if delete_first else False, x, y, z, True if ctxw else False)


def _make_p3(param):
    fdel, fctx, fia = param

    def p3(ib: int, ix: int, have_x: bool, x: int, y: int, z: int):
        return _p3(fia, ib, ix, have_x, fdel, x, y, z, fctx)

    return p3


def _p3_wrap(ia, ib, ix, have_x, delete_first, x, y, z, ctxw=False):
    return _p3_body(_VARS[ia], _VARS[ib], _VARS[ix], have_x, delete_first, x, y, z, ctxw)


def _p3_body(A, B, X, have_x, delete_first, x, y, z, ctxw=False):
    """two sweep nodes over the same element with (solver-picked) variable names A and B; a later node consumes X_values.
    Soundness: accepted + required keys supplied => no flow failure; truthfulness: the keys each sweep node is reported to
    create are the keys that appear when it runs."""
    from vt import lib

    lib.register()
    # the swept element is a plain operation or one that itself writes a declared context key ('last')
    elem = lib.OpCtxP if ctxw else lib.OpAdd
    sweep = lambda var, vals: {"processor": elem, "derive": {"parameter_sweep": {"variables": {var: {"values": list(vals)}}, "parameters": {"addend": var}, "collection": "IntColl"}}}
    nodes = [{"processor": lib.SrcD, "parameters": {}}, sweep(A, [x, y]), {"processor": lib.OpSum, "parameters": {}}]
    if delete_first:
        nodes.append({"processor": "delete:%s_values" % A})
    nodes += [sweep(B, [z]), {"processor": lib.OpSum, "parameters": {}}, {"processor": "rename:%s_values:picked" % X}]
    insp, accepted = _inspect(nodes)
    if not accepted:
        return True
    required = set(insp.required_context_keys)
    ctx = {"%s_values" % X: [7]} if have_x else {}
    if not required <= set(ctx):
        return True
    ctx = {k: v for k, v in ctx.items() if k in required}
    from semantiva.data_types import NoDataType

    tr = _RecTransport()
    lib.reset_log()
    try:
        lib.run_pipeline(nodes, NoDataType(), ctx, transport=tr)
    except Exception as e:  # noqa: BLE001
        kind = _is_flow_failure(e)
        if kind:
            return Fail("C02.P3:accepted-config-fails:%s" % kind, "sweeps over %s then %s, consumer of %s_values%s: accepted with required keys %r supplied, run raised %s: %s at node %d" % (A, B, X, " (after delete:%s_values)" % A if delete_first else "", sorted(required), type(e).__name__, str(e)[:120], len(tr.snaps)))
        return True
    prev = dict(ctx)
    for i, ni in enumerate(insp.nodes):
        after = tr.snaps[i]
        appeared = {k for k in after if k not in prev}
        if not appeared <= set(ni.created_keys):
            return Fail("C02.P3:unreported-created-key", "node %d (%s): keys %r appeared, reported created %r" % (i + 1, ni.processor_class, sorted(appeared), sorted(ni.created_keys)))
        for k in ni.created_keys:
            if k not in after:
                return Fail("C02.P3:reported-created-key-absent", "node %d (%s): reported created key %r is not in the context after the node (sweeps over %s, %s)" % (i + 1, ni.processor_class, k, A, B))
        prev = after
    return True


def obligations(tier: str) -> List[Ob]:
    big = tier == "thorough"
    R = C01._replay_simple
    tdesc = "Templates: all length-1, 24 curated interactions, ALL length-2 sequences over 19 node forms" + ("; thorough adds ALL length-3 sequences and a seeded draw of 400 length-4/5." if big else ".")
    return [
        Ob("C02.P3", _make_p3, lambda p, a: R(_p3_wrap)(p, dict(a, delete_first=p[0], ctxw=p[1], ia=p[2])), params=[(d, c, i) for d in (False, True) for c in (False, True) for i in range(3)], budget=600, per_path=60, bound="two sweep nodes of one element with variable names picked from {gain, scale, t} (symbolic indices), optional delete of the first sweep's key, a rename consuming X_values (X symbolic), X_values supplied or not (flag), swept element plain or context-writing (flag); sweep values symbolic",
           targets=["semantiva/inspection/builder.py:build_pipeline_inspection", "semantiva/data_processors/parametric_sweep_factory.py:ParametricSweepFactory.create"], stubs=list(STUBS)),
        Ob("C02.U1", lambda _p: _u1, R(_u1), budget=60, bound="flags config?/created-earlier?/deleted?/default? and both values symbolic over int | None (a channel holding None still is that channel)", targets=["semantiva/pipeline/_param_resolution.py:inspect_origin", "semantiva/pipeline/_param_resolution.py:resolve_runtime_value"]),
        Ob("C02.U2", lambda _p: _u2, R(_u2), budget=240, bound="5 component kinds x symbolic 4-bit subset of candidate parameter names in the node config", targets=["semantiva/pipeline/_param_resolution.py:classify_unknown_config_params", "semantiva/inspection/builder.py:build_pipeline_inspection"]),
        Ob("C02.U3", lambda _p: _u3, R(_u3), budget=120, bound="5 produced types x 4 expected types (incl. subclass both ways, collection, NoDataType)", targets=["semantiva/inspection/validator.py:_is_compatible", "semantiva/pipeline/nodes/nodes.py:_DataNode._process"]),
        Ob("C02.P1", _make_p("P1"), _replay_p("P1"), params=templates(tier), budget=400 if not big else 900, per_path=60,
           bound="per template: configured values, initial context values symbolic; config placement and presence of every context key symbolic flags; precondition required_context_keys subset of present keys. " + tdesc,
           targets=["semantiva/inspection/builder.py:build_pipeline_inspection", "semantiva/inspection/validator.py:validate_pipeline", "semantiva/inspection/validator.py:_validate_data_flow_compatibility", "semantiva/execution/orchestrator/orchestrator.py:SemantivaOrchestrator.execute"], stubs=list(STUBS)),
        Ob("C02.P2", _make_p("P2"), _replay_p("P2"), params=templates(tier), budget=400 if not big else 900, per_path=60,
           bound="as P1 with the initial context reduced to exactly the reported required keys; per-node created/suppressed keys vs recorded context diff, per-parameter origin vs received value for all values. " + tdesc,
           targets=["semantiva/inspection/builder.py:build_pipeline_inspection", "semantiva/pipeline/_param_resolution.py:inspect_origin"], stubs=list(STUBS)),
    ]


def extra_coverage(results):
    from vt import stubs

    return {"templates": len([r for r in results if r["oid"] == "C02.P1"]), "stubs": stubs.described(STUBS)}
