"""C06 -- every run leaves a well-formed, schema-valid trace, whatever node fails (Engine A).

P1  per (pipeline length n, detail level, output mode): fault position (symbolic int in [-1, n-1], -1 = no
    fault), fault kind (symbolic, 9 kinds) and the special float placed in a traced parameter (symbolic index
    over {finite, inf, -inf, nan, none}) are decided by the solver; each leaf runs the REAL Pipeline with the
    REAL JsonlTraceDriver writing real files in a scratch directory and checks the emitted lines:
    pipeline_start, one SER per started node in canonical order, exactly one pipeline_end; ids shared; SER
    upstream = canonical edges; statuses; pipeline_end ok iff the call returned; the caller receives the
    original exception object; file flushed and closed on return; every line validates against the schema the
    registry maps its record_type to (jsonschema, outside the tracer).
    Values are concrete here (JSON serialisation is the subject): the solver decides position x kind x value
    class and the run of each leaf is executed natively -- stated as such.
U1  compute_upstream_map: symbolic edge lists over <= 4 node ids; must be the inverse adjacency of `edges`.
"""
from __future__ import annotations

import json
import os
from typing import Any, Dict, List

from vt.props import C01
from vt.runner import Fail, Ob

LEVEL = "model_checking"
STUBS = ("time", "str", "env_pins", "datetime")
ASSUMPTIONS = [
    "harness component library (vt/lib.py); concrete values, symbolic scenario selectors (position, kind, special value)",
    "jsonschema Draft 2020-12 validation with the repository's own schema files and registry",
    "stubs: constant clock / datetime (CrossHair's symbolic clock forks), constant env pins, constant node __str__",
]
OUTSIDE = ["pipelines longer than 4 nodes", "timestamp truthfulness (C07)", "run-space lifecycle records in the JSONL driver (C09 uses an in-memory driver)"]

KINDS = ["processor-exception", "unresolvable-parameter", "type-gate", "undeclared-context-write", "construction:unknown-parameter", "construction:probe-without-context-key", "abort:BaseException", "construction:other-exception", "processor-exception:odd-args"]
# value classes that stress record serialisation: index 0 = no special parameter; non-finite floats; strings that are awkward
# for JSON / UTF-8 (non-ASCII, control characters and quotes, a lone surrogate as produced by os.fsdecode on undecodable
# file names); an int beyond 64 bits; values json cannot encode natively (bytes, set); a nested container holding a nan
SPECIALS = [None, 1.5, float("inf"), float("-inf"), float("nan"), "caf\u00e9 \u00b5m", "q\"\\\x00\x1f\n", "calib_\udcff.bin", 2 ** 70, b"\xff\x00", frozenset([1]), {"k": [1, {"z": float("nan")}]}]
NOT_JSON = (9, 10)  # indices of SPECIALS that json cannot encode natively (bytes, frozenset)
# every distinct option set the driver can be configured with (3 flags; the empty set is coerced to hash)
DETAILS = ["hash", "repr", "context", "hash,repr", "hash,context", "repr,context", "all"]

_SCR: Dict[str, str] = {}


def _scratch() -> str:
    if "d" not in _SCR:
        import atexit
        import shutil
        import tempfile

        _SCR["d"] = tempfile.mkdtemp(prefix="c06-")
        atexit.register(lambda: shutil.rmtree(_SCR["d"], ignore_errors=True))
    return _SCR["d"]


def setup_symbolic() -> None:
    from vt import lib, stubs

    stubs.apply(STUBS)
    lib.register()


_VALIDATORS: Dict[str, Any] = {}


def _validator(record_type: str):
    if not _VALIDATORS:
        import jsonschema
        from referencing import Registry
        from referencing.jsonschema import SchemaResource

        import semantiva.trace as _st

        sdir = os.path.join(os.path.dirname(_st.__file__), "schema")
        reg = Registry()
        schemas = {}
        for fn in os.listdir(sdir):
            if fn.endswith(".schema.json"):
                c = json.load(open(os.path.join(sdir, fn)))
                schemas[c.get("$id")] = c
                reg = reg.with_resource(c["$id"], SchemaResource.from_contents(c))
        registry = json.load(open(os.path.join(sdir, "trace_registry_v1.json")))
        for rt, url in registry["records"].items():
            _VALIDATORS[rt] = jsonschema.validators.Draft202012Validator(schemas[url], registry=reg)
    return _VALIDATORS.get(record_type)


class _Abort(BaseException):
    """KeyboardInterrupt-class abort (BaseException, not Exception)."""


def _nodes(n: int, pos: int, kind: int, special, source_first: bool, in_cfg: bool = False):
    from vt import lib

    class OpAbort(lib._IntOp):
        """raises a BaseException"""

        def _process_logic(self, data):
            raise _Abort("abort")

    class OpRaise(lib._IntOp):
        """raises and remembers the exception object"""

        def _process_logic(self, data):
            e = lib.Boom("boom")
            lib.LOG.append(("raised", {"exc": e}))
            raise e

    class OpRaiseOdd(lib._IntOp):
        """raises an exception whose first argument is not a string (an exception object wrapping bytes)"""

        def _process_logic(self, data):
            e = RuntimeError(LookupError(b"calib\xff"), 7)
            lib.LOG.append(("raised", {"exc": e}))
            raise e

    class OpInitFails(lib._IntOp):
        """cannot be constructed: its __init__ raises an exception that is none of the configuration-error classes"""

        def __init__(self, *a, **k):
            raise OSError("device not available")

        def _process_logic(self, data):
            return data

    class OpF(lib._IntOp):
        """takes a float parameter from the context (traced in SER parameters)"""

        def _process_logic(self, data, scale: float):
            return lib.IntData(data.data)

    first = (lambda: {"processor": OpF, "parameters": ({"scale": special} if in_cfg else {})}) if special is not None else (lambda: {"processor": lib.OpAddDef, "parameters": {"addend": 2}})
    cyc = [first, lambda: {"processor": lib.PrVal, "context_key": "out"}, lambda: {"processor": lib.OpAff, "parameters": {}}, lambda: {"processor": lib.OpAddDef, "parameters": {}}]
    nodes = []
    if source_first:
        nodes.append({"processor": lib.SrcD, "parameters": {"value": 5}})
    for i in range(n - len(nodes)):
        nodes.append(cyc[i % 4]())
    if pos >= 0:
        faulty = [
            {"processor": OpRaise, "parameters": {}},
            {"processor": lib.OpAdd, "parameters": {}},
            {"processor": lib.OpSum, "parameters": {}},
            {"processor": lib.OpCtxBad, "parameters": {}},
            {"processor": lib.OpAddDef, "parameters": {"bogus": 1}},
            {"processor": lib.PrVal},
            {"processor": OpAbort, "parameters": {}},
            {"processor": OpInitFails, "parameters": {}},
            {"processor": OpRaiseOdd, "parameters": {}},
        ][kind]
        nodes[pos] = faulty
    return nodes


def scenario(n: int, detail: str, file_mode: bool, source_first: bool, pos: int, kind: int, sidx: int, in_cfg: bool = False):
    """Concrete run of one scenario with the real JSONL driver; returns True or Fail."""
    import uuid

    from semantiva.data_types import NoDataType
    from semantiva.pipeline.graph_builder import build_canonical_spec
    from semantiva.trace.drivers.jsonl import JsonlTraceDriver
    from vt import lib

    special = SPECIALS[sidx]
    nodes = _nodes(n, pos, kind, special, source_first, in_cfg)
    tag = uuid.uuid4().hex[:10]
    base = _scratch()
    if file_mode == "dotdir":
        # directory output into a directory that already exists and has dots in its name
        out = os.path.join(base, "d.%s.v1" % tag)
        os.makedirs(out)
        file_mode = False
    else:
        out = os.path.join(base, "t-%s.ser.jsonl" % tag) if file_mode else os.path.join(base, "d-%s" % tag)

    opened: List[Any] = []

    class RecDriver(JsonlTraceDriver):
        def _open_file(self, run_id):
            was = self._file
            super()._open_file(run_id)
            if self._file is not was and self._file is not None:
                opened.append(self._file)

    drv = RecDriver(out, detail=detail)
    ctx: Dict[str, Any] = {"scale": special} if (special is not None and not in_cfg) else {}
    data = NoDataType() if source_first else lib.IntData(3)
    lib.reset_log()
    exc = None
    try:
        lib.run_pipeline(nodes, data, ctx, trace=drv)
        returned = True
    except _Abort as e:
        exc, returned = e, False
    except Exception as e:  # noqa: BLE001
        exc, returned = e, False
    kname = KINDS[kind] if pos >= 0 else "none"
    # ---- expectation
    construction = pos >= 0 and kind in (4, 5, 7)
    if pos < 0:
        n_ser, last_status = n, "succeeded"
    elif construction:
        n_ser, last_status = 0, None
    else:
        n_ser, last_status = pos + 1, "error"
    if (pos < 0) != returned:
        return Fail("C06.P1:outcome:%s" % kname, "call %s although fault position is %d" % ("returned" if returned else "raised %r" % (exc,), pos))
    if pos >= 0 and kind in (0, 8):
        raised = [e for (nm, e) in lib.LOG if nm == "raised"]
        if not raised or exc is not raised[-1]["exc"]:
            return Fail("C06.P1:exception-not-original:%s" % kname, "caller received %r, the processor raised %r" % (exc, raised[-1]["exc"] if raised else None))
    # ---- file state on return
    if not opened:
        return Fail("C06.P1:no-trace-file:%s" % kname, "no trace file was opened")
    for f in opened:
        if not f.closed:
            return Fail("C06.P1:file-not-closed:%s" % kname, "trace file still open when the call returned")
    files = [out] if file_mode else sorted(os.path.join(out, x) for x in os.listdir(out))
    lines: List[str] = []
    for fp in files:
        with open(fp) as fh:
            lines += [ln for ln in fh.read().split("\n") if ln.strip()]
    recs = []
    for ln in lines:
        try:
            recs.append(json.loads(ln))
        except Exception:  # noqa: BLE001
            return Fail("C06.P1:line-not-json:%s" % kname, "a trace line is not a JSON object: %s" % ln[:80])
    types = [r.get("record_type") for r in recs]
    exp_types = ["pipeline_start"] + ["ser"] * n_ser + ["pipeline_end"]
    if types != exp_types:
        return Fail("C06.P1:record-sequence:%s" % kname, "records %r, expected %r (n=%d, fault at %d)" % (types, exp_types, n, pos))
    canonical, _ = build_canonical_spec(nodes) if not construction or True else (None, None)
    uu = [x["node_uuid"] for x in canonical["nodes"]]
    start, end, sers = recs[0], recs[-1], recs[1:-1]
    if start.get("run_id") != end.get("run_id") or not start.get("run_id"):
        return Fail("C06.P1:run-id-not-shared:%s" % kname, "pipeline_start/pipeline_end run ids differ")
    for i, s in enumerate(sers):
        ident = s.get("identity", {})
        if ident.get("run_id") != start["run_id"] or ident.get("pipeline_id") != start.get("pipeline_id"):
            return Fail("C06.P1:ids-not-shared:%s" % kname, "SER %d carries other run/pipeline ids" % i)
        if ident.get("node_id") != uu[i]:
            return Fail("C06.P1:ser-order:%s" % kname, "SER %d is for node %r, canonical order has %r" % (i, ident.get("node_id"), uu[i]))
        if s.get("dependencies", {}).get("upstream") != ([uu[i - 1]] if i > 0 else []):
            return Fail("C06.P1:upstream:%s" % kname, "SER %d upstream %r, canonical edge says %r" % (i, s.get("dependencies", {}).get("upstream"), [uu[i - 1]] if i > 0 else []))
        want = "succeeded" if (i < len(sers) - 1 or last_status == "succeeded") else last_status
        if s.get("status") != want:
            return Fail("C06.P1:ser-status:%s" % kname, "SER %d status %r, expected %r" % (i, s.get("status"), want))
    if [x["node_uuid"] for x in start.get("pipeline_spec_canonical", {}).get("nodes", [])] != uu:
        return Fail("C06.P1:canonical-spec:%s" % kname, "pipeline_start canonical nodes differ from the configuration's")
    if (end.get("summary", {}).get("status") == "ok") != returned:
        return Fail("C06.P1:pipeline-end-status:%s" % kname, "pipeline_end says %r, call %s" % (end.get("summary", {}).get("status"), "returned" if returned else "raised"))
    for r in recs:
        v = _validator(r["record_type"])
        if v is None:
            return Fail("C06.P1:unknown-record-type:%s" % kname, "record_type %r not in the registry" % r["record_type"])
        errs = sorted(v.iter_errors(r), key=lambda e: list(e.path))
        if errs:
            return Fail("C06.P1:schema-invalid:%s:%s" % (r["record_type"], kname), "%s line violates its schema: %s at %s" % (r["record_type"], errs[0].message[:120], list(errs[0].path)))
    return True


def _make_p1(param):
    n, detail, file_mode, source_first = param

    def p1(pos: int, kind: int, sidx: int, in_cfg: bool):
        from crosshair.tracers import NoTracing
        from vt.engine import assume

        assume(-1 <= pos < n and 0 <= kind < len(KINDS) and 0 <= sidx < len(SPECIALS))
        # canonicalise don't-care combinations so they are explored once
        if pos < 0:
            assume(kind == 0)
        if sidx == 0:
            assume(not in_cfg)
        if sidx in NOT_JSON:
            assume(not in_cfg)  # node configuration is JSON-like by construction (YAML); such values can only arrive through the context
        if source_first and pos == 0:
            assume(kind in (4, 5, 7))  # a source is never fed: runtime fault kinds need a data node
        cpos = next(i for i in range(-1, n) if pos == i)
        ckind = next(i for i in range(len(KINDS)) if kind == i)
        csidx = next(i for i in range(len(SPECIALS)) if sidx == i)
        ccfg = True if in_cfg else False
        with NoTracing():
            return scenario(n, detail, file_mode, source_first, cpos, ckind, csidx, ccfg)

    return p1


def _replay_p1(param, a):
    from vt import lib

    lib.register()
    n, detail, file_mode, source_first = param
    v = scenario(n, detail, file_mode, source_first, a["pos"], a["kind"], a["sidx"], a.get("in_cfg", False))
    if v is True:
        return {"reproduced": False, "fingerprint": "", "detail": "trace is well-formed on the concrete scenario"}
    return {"reproduced": True, "fingerprint": v.fingerprint, "detail": v.detail}


# --------------------------------------------------------------------------------------------- U1
def _make_u1(param):
    nn, ne = param

    def u1(s0: int, t0: int, s1: int, t1: int, s2: int, t2: int):
        return _u1(nn, s0, t0, s1, t1, s2, t2, ne)

    return u1


def _u1(nn: int, s0: int, t0: int, s1: int, t1: int, s2: int, t2: int, ne: int):
    from semantiva.pipeline.graph_builder import compute_upstream_map
    from vt.engine import assume

    ids = ["n0", "n1", "n2", "n3"][:nn]
    pairs = [(s0, t0), (s1, t1), (s2, t2)][:ne]
    edges = []
    for s, t in pairs:
        assume(0 <= s < nn and 0 <= t < nn)
        edges.append({"source": ids[s], "target": ids[t]})
    spec = {"nodes": [{"node_uuid": i} for i in ids], "edges": edges}
    got = compute_upstream_map(spec)
    for i in ids:
        exp = [e["source"] for e in edges if e["target"] == i]
        if got.get(i, None) != exp:
            return Fail("C06.U1:upstream-map", "upstream of %s is %r, edges say %r" % (i, got.get(i), exp))
    if set(got) != set(ids):
        return Fail("C06.U1:upstream-map-keys", "upstream map keys %r" % sorted(got))
    return True


def obligations(tier: str) -> List[Ob]:
    big = tier == "thorough"
    lens = (1, 2, 3) if not big else (1, 2, 3, 4)
    params = [(n, d, fm, sf) for n in lens for d in DETAILS for fm in (True, False) for sf in (False, True)]
    params += [(2, d, "dotdir", False) for d in ("hash", "all")]
    return [
        Ob("C06.P1", _make_p1, _replay_p1, params=params, budget=600, per_path=120,
           bound="per (length n in %s, detail flags: all 7 non-empty subsets of {hash, repr, context}, file/directory output (plus an existing directory with dots in its name), source-first or not): fault position in [-1, n-1], fault kind over 9 kinds, special value class over {none, finite float, inf, -inf, nan, non-ASCII str, control-character str, lone-surrogate str, 70-bit int, bytes, frozenset, nested container with nan} reaching a traced parameter from the context or from the node configuration (flag) -- all four symbolic; values concrete" % (list(lens),),
           targets=["semantiva/execution/orchestrator/orchestrator.py:SemantivaOrchestrator.execute", "semantiva/trace/drivers/jsonl.py:JsonlTraceDriver.on_pipeline_start", "semantiva/trace/drivers/jsonl.py:JsonlTraceDriver.on_node_event", "semantiva/trace/drivers/jsonl.py:JsonlTraceDriver.on_pipeline_end", "semantiva/execution/orchestrator/orchestrator.py:SemantivaOrchestrator._instantiate_nodes"], stubs=list(STUBS)),
        Ob("C06.U1", _make_u1, lambda p, a: C01._replay_simple(_u1)(p, dict(a, nn=p[0], ne=p[1])), params=[(nn, ne) for nn in (1, 2, 3, 4) for ne in (0, 1, 2, 3) if not (nn == 4 and ne == 3)], budget=300, bound="<= 4 node ids, <= 3 edges with symbolic endpoints (4 nodes: <= 2 edges)", targets=["semantiva/pipeline/graph_builder.py:compute_upstream_map"]),
    ]


def extra_coverage(results):
    from vt import stubs

    return {"stubs": stubs.described(STUBS), "fault_kinds": KINDS, "scenarios_explored": int(sum(int(r.get("paths_reached_assert") or 0) for r in results if r["oid"] == "C06.P1"))}
