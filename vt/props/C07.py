"""C07 -- what a Semantic Execution Record says about its node is true (Engine A + Engine B-clock).

U1  DeltaCollector.compute with the REAL _stable_equal: pre/post contexts over a 3-key alphabet, presence
    flags and values symbolic (ints in a small range, bool, None): created = post - pre, updated = keys in
    both whose type or value differs, read_keys = sorted required keys.
U4  _end_timing with a symbolic non-decreasing clock: wall_ms >= 0.
P1  per shape template, real traced run (in-memory driver, values symbolic): for every SER
      created_keys / updated_keys == diff of the context recorded before/after the node (recording transport),
      processor.ref names the class that ran,
      for EVERY parameter the component received (harness log): it is listed in processor.parameters with the
      value actually passed, and parameter_sources names the channel actually used (node / context / default),
      required_keys_present / input_type_ok / output_type_ok / context_writes_realized say PASS exactly when true.
P2  digests (concrete values, solver-selected scenario): output digest of node k == input digest of node k+1,
    post_context digest of k == pre_context digest of k+1, equal content <=> equal digest along the run,
    pre != post digest exactly when the context changed (also for nodes that only delete keys).
B   timestamps: the bodies of orchestrator._iso_now and jsonl._now_timestamp are abstracted from their AST
    ("digits denote instant T + host offset" / "T", suffix string); z3 searches a host UTC offset in
    {0, +540, -480, +345} min and instants T1 <= T2 such that the text is not exactly one RFC 3339 zone
    designator, denotes another instant than T, or decreases.
"""
from __future__ import annotations

import ast
import inspect
import os
import json
from typing import Any, Dict, List

from vt import shapes
from vt.props import C01, C02
from vt.runner import Fail, Ob

LEVEL = "model_checking"
STUBS = C01.STUBS
ASSUMPTIONS = C01.ASSUMPTIONS + ["P2 runs on concrete values (digest content is SHA-256 of serialised values: not symbolic) with solver-selected scenarios", "B-clock: datetime.now()/isoformat()/timezone.utc semantics as documented by CPython; constant host UTC offset during a run (no DST change)"]
OUTSIDE = ["digest VALUES (SHA-256)", "cpu_ms", "DST transitions during a run"]


def setup_symbolic() -> None:
    C01.setup_symbolic()


# --------------------------------------------------------------------------------------------- U1
_K = ("a", "b", "c")


def _jv(kind: int, i: int):
    """JSON scalar from (kind, int): int / bool / None / float-like int."""
    if kind == 0:
        return i
    if kind == 1:
        return True if i else False
    if kind == 2:
        return None
    return [i]


def _make_u1(param):
    ka, la = param

    def u1(pa: bool, pb: bool, qa: bool, qb: bool, kb: int, lb: int, va: int, vb: int, wa: int, wb: int, req: int):
        return _u1(pa, pb, qa, qb, ka, kb, la, lb, va, vb, wa, wb, req)

    return u1


def _u1(pa: bool, pb: bool, qa: bool, qb: bool, ka: int, kb: int, la: int, lb: int, va: int, vb: int, wa: int, wb: int, req: int):
    from semantiva.trace.delta_collector import DeltaCollector
    from vt.engine import assume

    assume(0 <= ka <= 3 and 0 <= kb <= 3 and 0 <= la <= 3 and 0 <= lb <= 3 and 0 <= req < 4)
    assume(0 <= va <= 2 and 0 <= vb <= 2 and 0 <= wa <= 2 and 0 <= wb <= 2)
    pre: Dict[str, Any] = {"c": 5}
    post: Dict[str, Any] = {"c": 5}
    if pa:
        pre["a"] = _jv(ka, va)
    if pb:
        pre["b"] = _jv(kb, vb)
    if qa:
        post["a"] = _jv(la, wa)
    if qb:
        post["b"] = _jv(lb, wb)
    required = [k for i, k in enumerate(("b", "a")) if (req >> i) & 1]
    import semantiva.trace.delta_collector as dc
    from vt import stubs

    saved = dc._stable_equal
    dc._stable_equal = stubs.ORIG.get("stable_equal", saved)  # this obligation is about the REAL comparison
    try:
        out = DeltaCollector(enable_hash=False, enable_repr=False).compute(pre_ctx=pre, post_ctx=post, required_keys=required)
    finally:
        dc._stable_equal = saved
    exp_created = sorted(k for k in post if k not in pre)
    exp_updated = sorted(k for k in post if k in pre and not (type(pre[k]) is type(post[k]) and pre[k] == post[k]))
    if list(out["created_keys"]) != exp_created:
        return Fail("C07.U1:created-keys", "created %r, truth %r" % (out["created_keys"], exp_created))
    if list(out["updated_keys"]) != exp_updated:
        return Fail("C07.U1:updated-keys", "updated %r, truth %r (pre %r post %r)" % (out["updated_keys"], exp_updated, pre, post))
    if list(out["read_keys"]) != sorted(required):
        return Fail("C07.U1:read-keys", "read_keys %r" % (out["read_keys"],))
    return True


def _u4(t0: int, dt: int):
    import semantiva.execution.orchestrator.orchestrator as orch
    from vt.engine import assume

    assume(0 <= t0 <= 10**6 and 0 <= dt <= 10**6)

    class _Clock:
        def __init__(self):
            self.calls = 0

        def time(self):
            self.calls += 1
            return t0 + (dt if self.calls > 1 else 0)  # whole seconds: keeps the arithmetic in integers

        def process_time(self):
            return 0.0

    saved = orch.time
    orch.time = _Clock()
    try:
        o = orch.LocalSemantivaOrchestrator()
        sw, sc, _ = o._start_timing()
        _, wall_ms, cpu_ms = o._end_timing(sw, sc)
    finally:
        orch.time = saved
    if not (wall_ms >= 0):
        return Fail("C07.U4:negative-duration", "wall_ms %r for a clock that advanced by %r ms" % (wall_ms, dt))
    return True


# --------------------------------------------------------------------------------------------- U1b nested values
def _nested(order: int, leaf: int):
    """one value, written in one of 4 key orders (nested mappings, a mapping inside a list)."""
    inner = {"p": leaf, "q": 2} if order & 1 == 0 else {"q": 2, "p": leaf}
    if order & 2 == 0:
        return {"x": 1, "y": inner, "z": [inner, 3]}
    return {"z": [inner, 3], "y": inner, "x": 1}


def _u1b(o1: int, o2: int, leaf1: int, leaf2: int):
    """digests and deltas are functions of CONTENT: the same nested value written in another key order has the same
    digest and is not an update; a different leaf is."""
    from semantiva.trace._utils import canonical_json_bytes, serialize, sha256_bytes
    from semantiva.trace.delta_collector import DeltaCollector
    from vt.engine import assume

    assume(0 <= o1 < 4 and 0 <= o2 < 4 and 0 <= leaf1 <= 1 and 0 <= leaf2 <= 1)
    c1, c2 = next(i for i in range(4) if o1 == i), next(i for i in range(4) if o2 == i)
    l1, l2 = (1 if leaf1 == 1 else 0), (1 if leaf2 == 1 else 0)
    a, b = _nested(c1, l1), _nested(c2, l2)
    same = l1 == l2
    for fn, what in ((lambda v: sha256_bytes(canonical_json_bytes({"k": v})), "context digest"), (lambda v: sha256_bytes(serialize(v)), "value digest")):
        if (fn(a) == fn(b)) != same:
            return Fail("C07.U1b:digest-vs-content:%s" % what.split()[0], "%s of %r and %r are %s although the contents are %s" % (what, a, b, "equal" if fn(a) == fn(b) else "different", "equal" if same else "different"))
    out = DeltaCollector(enable_hash=True, enable_repr=False).compute(pre_ctx={"k": a}, post_ctx={"k": b}, required_keys=[])
    upd = sorted(out["updated_keys"] if isinstance(out, dict) else out.updated_keys)
    if upd != ([] if same else ["k"]):
        return Fail("C07.U1b:updated-keys-vs-content", "updated_keys %r for pre %r post %r" % (upd, a, b))
    return True


# --------------------------------------------------------------------------------------------- U5
def _mk_scaled(default: int):
    """A class named the same (module and qualified name) on every call, with another default each time -- what a plugin
    reload, a notebook cell re-run or a per-run generated class looks like to code that keys on names."""
    from vt import lib

    class OpScaled(lib._IntOp):
        """x * 1 + factor, factor defaulted"""

        def _process_logic(self, data, factor: int = default):
            lib.LOG.append(("OpScaled", {"factor": factor}))
            return lib.IntData(data.data + factor)

    return OpScaled


def _u5(x: int, i: int, j: int, placed: int):
    """history: an earlier traced run used ANOTHER class with the same name; the SER of this run must describe THIS class."""
    from vt import lib
    from vt.engine import assume
    from vt.memtrace import MemTrace

    DEF = (2, 5, -1)
    assume(0 <= i < 3 and 0 <= j < 3 and 0 <= placed <= 3)
    d1, d2 = DEF[next(k for k in range(3) if i == k)], DEF[next(k for k in range(3) if j == k)]
    A, B = _mk_scaled(d1), _mk_scaled(d2)
    lib.run_pipeline([{"processor": A, "parameters": {}}], lib.IntData(1), {}, trace=MemTrace())
    cfg = {"factor": 40} if placed == 1 else {}
    # placed == 3: the context supplies a value that happens to equal the default -- the channel is still the context
    ctx = {"factor": 70} if placed == 2 else ({"factor": d2} if placed == 3 else {})
    exp_val, exp_src = (40, "node") if placed == 1 else ((70, "context") if placed == 2 else ((d2, "context") if placed == 3 else (d2, "default")))
    tr = MemTrace()
    lib.reset_log()
    d, _c = lib.run_pipeline([{"processor": B, "parameters": cfg}], lib.IntData(x), ctx, trace=tr)
    sers = [r["ser"] for r in tr.records if r["record_type"] == "ser"]
    if len(sers) != 1:
        return Fail("C07.U5:ser-count", "%d SERs" % len(sers))
    got = lib.LOG[-1][1]["factor"]
    if not (got == exp_val):
        return Fail("C07.U5:harness", "component received %r" % (got,))
    p = sers[0].processor
    if not ((p.get("parameters") or {}).get("factor") == got):
        return Fail("C07.U5:param-value-after-same-named-class", "SER says factor=%r, the processor received %r (an earlier run used a same-named class with default %r)" % ((p.get("parameters") or {}).get("factor"), got, d1))
    if (p.get("parameter_sources") or {}).get("factor") != exp_src:
        return Fail("C07.U5:param-source-after-same-named-class", "SER says source %r, actual %r" % ((p.get("parameter_sources") or {}).get("factor"), exp_src))
    return True


# --------------------------------------------------------------------------------------------- T timestamps at boundaries
_FRACS = (0.0, 0.0004, 0.0005, 0.4995, 0.9989, 0.9994, 0.9995, 0.99951, 0.99999)
_BASES = (1700000000, 1700000059, 1709251199, 1735689599)  # ordinary second; :59 of a minute; last second of Feb 29 2024; last second of 2024 (UTC)


def _t(fi: int, bi: int, failing: bool):
    from crosshair.tracers import NoTracing
    from vt.engine import assume

    assume(0 <= fi < len(_FRACS) and 0 <= bi < len(_BASES))
    cf, cb = next(i for i in range(len(_FRACS)) if fi == i), next(i for i in range(len(_BASES)) if bi == i)
    with NoTracing():
        from vt import stubs

        with stubs.suspended():
            return _t_body(cf, cb, True if failing else False)


def _t_body(fi, bi, failing):
    """Real traced run (real JSONL driver, real orchestrator) under a controlled wall clock whose readings start at a
    boundary instant (sub-second part near .0005 / .9995 / 1.0, second near a minute / day / year boundary): every
    timestamp written must be RFC 3339 UTC, denote an instant inside the window of the clock's readings (+-1 ms), and the
    stream must be non-decreasing."""
    import datetime as _dt
    import re
    import uuid

    import semantiva.execution.orchestrator.orchestrator as orch
    import semantiva.trace.drivers.jsonl as jl
    from semantiva.trace.drivers.jsonl import JsonlTraceDriver
    from vt import lib
    from vt.props import C06

    lib.register()
    t0 = _BASES[bi] + _FRACS[fi]
    reads: List[float] = []

    def now() -> float:
        reads.append(t0 + 0.00011 * len(reads))
        return reads[-1]

    class _Time:
        @staticmethod
        def time():
            return now()

        @staticmethod
        def process_time():
            return 0.0

        gmtime = staticmethod(__import__("time").gmtime)
        strftime = staticmethod(__import__("time").strftime)

    class _DT(_dt.datetime):
        @classmethod
        def now(cls, tz=None):
            return _dt.datetime.fromtimestamp(now(), tz)

        @classmethod
        def utcnow(cls):
            return _dt.datetime.utcfromtimestamp(now())

    saved = (orch.time, orch.datetime, jl.datetime)
    orch.time, orch.datetime, jl.datetime = _Time, _DT, _DT
    path = os.path.join(C06._scratch(), "ts-%s.jsonl" % uuid.uuid4().hex[:8])
    try:
        nodes = [{"processor": lib.OpAddDef, "parameters": {}}, {"processor": lib.OpBoom if failing else lib.OpAff, "parameters": {}}]
        try:
            lib.run_pipeline(nodes, lib.IntData(1), {}, trace=JsonlTraceDriver(path))
        except Exception:  # noqa: BLE001
            pass
    finally:
        orch.time, orch.datetime, jl.datetime = saved
    with open(path) as fh:
        recs = [json.loads(ln) for ln in fh.read().split("\n") if ln.strip()]
    stamps: List[str] = []
    for r in recs:
        if "timestamp" in r:
            stamps.append(r["timestamp"])
        tm = r.get("timing") or {}
        for k in ("started_at", "finished_at"):
            if tm.get(k):
                stamps.append(tm[k])
    if not stamps or not reads:
        return Fail("C07.T:no-timestamps", "no timestamps / clock readings (%d/%d)" % (len(stamps), len(reads)))
    pat = re.compile(r"^(\d{4})-(\d\d)-(\d\d)T(\d\d):(\d\d):(\d\d)(?:\.(\d{1,9}))?Z$")
    lo, hi = min(reads) - 0.001, max(reads) + 0.001
    prev = None
    for sidx, st in enumerate(stamps):
        m = pat.match(st)
        if not m:
            return Fail("C07.T:not-rfc3339-utc", "timestamp %r is not RFC 3339 with a Z designator" % (st,))
        y, mo, d, h, mi, se = (int(x) for x in m.groups()[:6])
        frac = m.group(7) or ""
        if len(frac) not in (0, 3, 6):
            return Fail("C07.T:fraction-digits", "timestamp %r has %d fractional digits (milliseconds announced)" % (st, len(frac)))
        try:
            inst = _dt.datetime(y, mo, d, h, mi, se, tzinfo=_dt.timezone.utc).timestamp() + (int(frac) / (10 ** len(frac)) if frac else 0.0)
        except ValueError:
            return Fail("C07.T:not-a-date", "timestamp %r is not a date" % (st,))
        if not (lo <= inst <= hi):
            return Fail("C07.T:instant-off", "timestamp %r denotes %.4f, the clock read %.4f .. %.4f during the run" % (st, inst, min(reads), max(reads)))
        if prev is not None and inst < prev[0]:
            return Fail("C07.T:stream-goes-back", "timestamp %r (%.4f) follows %r (%.4f) in the stream" % (st, inst, prev[1], prev[0]))
        prev = (inst, st)
    return True


# --------------------------------------------------------------------------------------------- P1
def _make_p1(T):
    use_s = shapes.uses_strings(T)

    def p1(v0: int, v1: int, v2: int, v3: int, v4: int, v5: int, v6: int, v7: int, v8: int, v9: int, v10: int, v11: int,
           f0: bool, f1: bool, f2: bool, f3: bool, f4: bool, f5: bool, f6: bool, f7: bool, f8: bool, f9: bool, f10: bool, f11: bool, s0: str, s1: str):
        if use_s:
            from vt.engine import assume

            assume(len(s0) <= 3 and len(s1) <= 3)
        return _p1_body(T, [v0, v1, v2, v3, v4, v5, v6, v7, v8, v9, v10, v11], [f0, f1, f2, f3, f4, f5, f6, f7, f8, f9, f10, f11], [s0, s1])

    return p1


class _RecT(C02._RecTransport):
    def __init__(self):
        super().__init__()
        self.datas: List[Any] = []

    def publish(self, channel, data, context, metadata=None, require_ack=False):
        super().publish(channel, data, context, metadata, require_ack)
        self.datas.append(data)


def _p1_body(T, V, F, S):
    from vt import lib
    from vt.memtrace import MemTrace

    ref_nodes, data0, ctx0 = shapes.instantiate(T, V, F, S)
    real_nodes, real_data = shapes.to_real(ref_nodes, data0)
    tr = MemTrace(options={"hash": False, "repr": False, "context": False})
    rec = _RecT()
    lib.reset_log()
    try:
        lib.run_pipeline(real_nodes, real_data, ctx0, trace=tr, transport=rec)
    except Exception:  # noqa: BLE001
        pass  # failing runs still emit SERs for the nodes that started; they are checked below
    sers = [r["ser"] for r in tr.records if r["record_type"] == "ser"]
    log = list(lib.LOG)
    name = T["name"]
    prev_ctx = dict(ctx0)
    prev_data = real_data
    ptr = 0
    for i, ser in enumerate(sers):
        nd = ref_nodes[i]
        finished = i < len(rec.snaps)
        post_ctx = rec.snaps[i] if finished else None
        # ---- processor.ref
        ref = ser.processor.get("ref", "")
        if nd[0] == "comp":
            if not ref.endswith("." + nd[1]):
                return Fail("C07.P1:processor-ref", "template %s node %d: SER names %r, the class that ran is %s" % (name, i, ref, nd[1]))
        # ---- parameters and sources vs what the component received
        if nd[0] in ("comp", "slice") and ptr < len(log) and log[ptr][0] == nd[1]:
            got = log[ptr][1]
            params = ser.processor.get("parameters") or {}
            sources = ser.processor.get("parameter_sources") or {}
            for pn, pv in got.items():
                if pn == "data":
                    continue
                if pn in nd[2]:
                    chan = "node"
                elif pn in prev_ctx:
                    chan = "context"
                else:
                    chan = "default"
                if pn not in params:
                    return Fail("C07.P1:param-missing:%s" % ("context-over-default" if (chan == "context" and _has_default(nd[1], pn)) else chan), "template %s node %d (%s): parameter %s was resolved from %s and passed to the processor but is absent from SER processor.parameters" % (name, i, nd[1], pn, chan))
                if not (params[pn] == pv):
                    return Fail("C07.P1:param-value", "template %s node %d: SER says %s=%r, the processor received another value" % (name, i, pn, params[pn]))
                if sources.get(pn) != chan:
                    return Fail("C07.P1:param-source:%s-reported-%s" % (chan, sources.get(pn)), "template %s node %d: %s came from %s, SER says %r" % (name, i, pn, chan, sources.get(pn)))
            while ptr < len(log) and log[ptr][0] == nd[1]:
                ptr += 1
                if nd[0] == "comp":
                    break
        # ---- context delta
        if finished:
            created = sorted(k for k in post_ctx if k not in prev_ctx)
            updated = sorted(k for k in post_ctx if k in prev_ctx and not (prev_ctx[k] == post_ctx[k]))
            if sorted(ser.context_delta.created_keys) != created:
                return Fail("C07.P1:created-keys", "template %s node %d: SER created_keys %r, context diff %r" % (name, i, ser.context_delta.created_keys, created))
            if sorted(ser.context_delta.updated_keys) != updated:
                return Fail("C07.P1:updated-keys", "template %s node %d: SER updated_keys %r, context diff %r" % (name, i, ser.context_delta.updated_keys, updated))
        # ---- built-in checks
        pre = {c["code"]: c for c in ser.assertions.get("preconditions", [])}
        post = {c["code"]: c for c in ser.assertions.get("postconditions", [])}
        rk = pre.get("required_keys_present")
        if rk is not None:
            missing = [k for k in (rk.get("details", {}).get("expected_keys") or []) if k not in prev_ctx]
            if (rk["result"] == "PASS") != (not missing):
                return Fail("C07.P1:check:required_keys_present", "template %s node %d: check says %s, missing keys %r" % (name, i, rk["result"], missing))
        it = pre.get("input_type_ok")
        if it is not None and nd[0] in ("comp", "slice"):
            want = _input_type(nd)
            if want is not None and (it["result"] == "PASS") != isinstance(prev_data, want):
                return Fail("C07.P1:check:input_type_ok", "template %s node %d: check says %s for %s into a node expecting %s" % (name, i, it["result"], type(prev_data).__name__, want.__name__))
        if finished:
            ot = post.get("output_type_ok")
            want_out = _output_type(nd)
            if ot is not None and want_out is not None and (ot["result"] == "PASS") != isinstance(rec.datas[i], want_out):
                return Fail("C07.P1:check:output_type_ok", "template %s node %d: check says %s for output %s" % (name, i, ot["result"], type(rec.datas[i]).__name__))
            cw = post.get("context_writes_realized")
            if cw is not None:
                miss = [k for k in list(ser.context_delta.created_keys) + list(ser.context_delta.updated_keys) if k not in post_ctx]
                if (cw["result"] == "PASS") != (not miss):
                    return Fail("C07.P1:check:context_writes_realized", "template %s node %d: check says %s, unrealised %r" % (name, i, cw["result"], miss))
            prev_ctx = post_ctx
            prev_data = rec.datas[i]
    return True


def _has_default(comp: str, pn: str) -> bool:
    from vt import refmodel

    return any(n == pn and d is not refmodel.NO for n, d in refmodel.SPEC[comp][1])


def _input_type(nd):
    from semantiva.data_types import NoDataType
    from vt import lib, refmodel

    if nd[0] == "slice":
        return lib.IntColl
    t = refmodel.SPEC[nd[1]][0]
    return {"int": lib.IntData, "subint": lib.SubIntData, "coll": lib.IntColl, "none": NoDataType}.get(t)


def _output_type(nd):
    from vt import lib

    if nd[0] not in ("comp", "slice"):
        return None
    if nd[0] == "slice":
        return lib.IntColl if nd[1] != "PrParam" else None
    return {"OpAdd": lib.IntData, "OpAddDef": lib.IntData, "OpAff": lib.IntData, "OpTwo": lib.IntData, "OpCtxW": lib.IntData, "OpToOther": lib.OtherData, "OpSub": lib.IntData, "OpSubDecl": lib.SubIntData, "OpNeedSub": lib.IntData, "OpMkColl": lib.IntColl, "OpSum": lib.IntData, "SrcV": lib.IntData, "SrcD": lib.IntData, "PSrc": lib.IntData}.get(nd[1])


def _replay_p1(T, a):
    from vt import lib

    lib.register()
    V = [a["v%d" % i] for i in range(shapes.NV)]
    F = [a["f%d" % i] for i in range(shapes.NF)]
    v = _p1_body(T, V, F, [a.get("s0", ""), a.get("s1", "")])
    if v is True:
        return {"reproduced": False, "fingerprint": "", "detail": "SER content is truthful on the concrete input"}
    return {"reproduced": True, "fingerprint": v.fingerprint, "detail": v.detail}


# --------------------------------------------------------------------------------------------- P2 digests
_P2_TEMPLATES = None


def _p2_templates():
    global _P2_TEMPLATES
    if _P2_TEMPLATES is None:
        T = [t for t in shapes.curated() if t["name"] in ("c.delete-then-default", "c.delete-then-rename", "c.ctxw-feeds", "c.probe-feeds-param", "c.cp-feeds-op", "c.slicer-default-ctx", "c.rename-onto-existing", "c.src-template-sink")]
        T.append(shapes._t("p2.delete-only", shapes.INT, [("a", "v1", None), ("b", "v2", None)], [("comp", "OpAddDef", []), ("delete", "a"), ("delete", "b"), ("comp", "OpAddDef", [])]))
        T.append(shapes._t("p2.same-content", shapes.INT, [("a", "v1", None)], [("comp", "OpAddDef", [("addend", 0, None)]), ("comp", "OpAddDef", [("addend", 0, None)]), ("rename", "a", "b"), ("rename", "b", "a")]))
        _P2_TEMPLATES = T
    return _P2_TEMPLATES


def _p2_scenario(ti: int, detail: str, flagbits: int):
    """Concrete traced run; digest chaining and digest-vs-content along the run."""
    from vt import lib
    from vt.memtrace import MemTrace
    from semantiva.trace.drivers.jsonl import JsonlTraceDriver

    T = _p2_templates()[ti]
    V = [3, 11, 12, 13, 14, 15, 16, 17, 18, 19, 20, 21]
    F = [bool((flagbits >> i) & 1) for i in range(shapes.NF)]
    ref_nodes, data0, ctx0 = shapes.instantiate(T, V, F, ["xy", "z"])
    real_nodes, real_data = shapes.to_real(ref_nodes, data0)
    opts = JsonlTraceDriver(None, detail=detail).get_options()
    tr = MemTrace(options=opts)
    rec = _RecT()
    lib.reset_log()
    try:
        lib.run_pipeline(real_nodes, real_data, ctx0, trace=tr, transport=rec)
    except Exception:  # noqa: BLE001
        pass
    sers = [r["ser"] for r in tr.records if r["record_type"] == "ser"]
    if not opts.get("hash"):
        return True
    prev_ctx = dict(ctx0)
    seen: Dict[str, Any] = {}
    for i, ser in enumerate(sers):
        sm = ser.summaries or {}
        if i + 1 < len(sers) and ser.status == "succeeded":
            nx = sers[i + 1].summaries or {}
            if (sm.get("output_data") or {}).get("sha256") != (nx.get("input_data") or {}).get("sha256"):
                return Fail("C07.P2:data-digest-chain", "template %s: output digest of node %d differs from input digest of node %d" % (T["name"], i, i + 1))
            if (sm.get("post_context") or {}).get("sha256") != (nx.get("pre_context") or {}).get("sha256"):
                return Fail("C07.P2:context-digest-chain", "template %s: post_context digest of node %d differs from pre_context digest of node %d" % (T["name"], i, i + 1))
        if i < len(rec.snaps):
            post_ctx = rec.snaps[i]
            pre_d, post_d = (sm.get("pre_context") or {}).get("sha256"), (sm.get("post_context") or {}).get("sha256")
            if pre_d is not None and post_d is not None and ((pre_d == post_d) != (prev_ctx == post_ctx)):
                return Fail("C07.P2:context-digest-vs-content", "template %s node %d: pre/post context digests %s although the context %s" % (T["name"], i, "equal" if pre_d == post_d else "differ", "changed" if prev_ctx != post_ctx else "is unchanged"))
            for d, content in ((pre_d, prev_ctx), (post_d, post_ctx)):
                if d is None:
                    continue
                key = repr(sorted(content.items(), key=lambda kv: kv[0]))
                if d in seen and seen[d] != key:
                    return Fail("C07.P2:one-digest-two-contents", "template %s: one context digest for two different contents" % T["name"])
                seen[d] = key
            prev_ctx = post_ctx
    return True


def _make_p2(param):
    detail = param

    def p2(ti: int, flagbits: int):
        from crosshair.tracers import NoTracing
        from vt.engine import assume

        n = len(_p2_templates())
        assume(0 <= ti < n and 0 <= flagbits < 8)
        cti = next(i for i in range(n) if ti == i)
        cfb = next(i for i in range(8) if flagbits == i)
        from vt import stubs

        with NoTracing(), stubs.suspended():
            return _p2_scenario(cti, detail, cfb)

    return p2


def _replay_p2(detail, a):
    from vt import lib

    lib.register()
    v = _p2_scenario(a["ti"], detail, a["flagbits"])
    if v is True:
        return {"reproduced": False, "fingerprint": "", "detail": "digests chain on the concrete run"}
    return {"reproduced": True, "fingerprint": v.fingerprint, "detail": v.detail}


# --------------------------------------------------------------------------------------------- B-clock
class _Unsupported(Exception):
    pass


def _abstract_timestamp_fn(fn) -> Dict[str, Any]:
    """AST of a timestamp-producing method -> {'digits': 'local'|'utc', 'suffix': str}.
    Supported: datetime.now([timezone.utc | tz=timezone.utc]) [.replace(tzinfo=None)] .isoformat(...)
    [.replace(<lit>, <lit>)] [+ <lit>] in a single return statement."""
    src = inspect.getsource(fn)
    tree = ast.parse(__import__("textwrap").dedent(src))
    rets = [n for n in ast.walk(tree) if isinstance(n, ast.Return)]
    if len(rets) != 1 or rets[0].value is None:
        raise _Unsupported("expected a single return expression")

    def ev(n):
        # returns ("dt", aware: bool, digits) | ("str", digits, suffix)
        if isinstance(n, ast.BinOp) and isinstance(n.op, ast.Add):
            l, r = ev(n.left), n.right
            if l[0] == "str" and isinstance(r, ast.Constant) and isinstance(r.value, str):
                return ("str", l[1], l[2] + r.value)
            raise _Unsupported("concatenation form")
        if isinstance(n, ast.Call) and isinstance(n.func, ast.Attribute):
            meth = n.func.attr
            if meth == "now" and isinstance(n.func.value, ast.Name) and n.func.value.id == "datetime":
                args = list(n.args) + [k.value for k in n.keywords if k.arg in ("tz", None)]
                if not args:
                    return ("dt", False, "local")
                a = args[0]
                if isinstance(a, ast.Attribute) and a.attr == "utc":
                    return ("dt", True, "utc")
                if isinstance(a, ast.Name) and a.id == "UTC":
                    return ("dt", True, "utc")
                raise _Unsupported("datetime.now(<unknown tz>)")
            if meth == "utcnow" and isinstance(n.func.value, ast.Name) and n.func.value.id == "datetime":
                return ("dt", False, "utc")
            base = ev(n.func.value)
            if meth == "replace" and base[0] == "dt":
                kws = {k.arg: k.value for k in n.keywords}
                if set(kws) == {"tzinfo"} and isinstance(kws["tzinfo"], ast.Constant) and kws["tzinfo"].value is None:
                    return ("dt", False, base[2])
                raise _Unsupported("datetime.replace form")
            if meth == "astimezone" and base[0] == "dt":
                a = n.args[0] if n.args else None
                if isinstance(a, ast.Attribute) and a.attr == "utc":
                    return ("dt", True, "utc")  # naive values are interpreted as local time and converted
                raise _Unsupported("astimezone form")
            if meth == "isoformat" and base[0] == "dt":
                return ("str", base[2], "+00:00" if base[1] else "")
            if meth == "replace" and base[0] == "str":
                if len(n.args) == 2 and all(isinstance(a, ast.Constant) and isinstance(a.value, str) for a in n.args):
                    return ("str", base[1], base[2].replace(n.args[0].value, n.args[1].value))
                raise _Unsupported("str.replace form")
            if meth == "strftime" and base[0] == "dt":
                fmt = n.args[0].value if n.args and isinstance(n.args[0], ast.Constant) else None
                if isinstance(fmt, str) and fmt.endswith("Z") and "%z" not in fmt:
                    return ("str", base[2], "Z")
                raise _Unsupported("strftime form")
        raise _Unsupported(ast.dump(n)[:80])

    out = ev(rets[0].value)
    if out[0] != "str":
        raise _Unsupported("does not return text")
    return {"digits": out[1], "suffix": out[2]}


def _clock_targets():
    from semantiva.execution.orchestrator.orchestrator import SemantivaOrchestrator
    from semantiva.trace.drivers.jsonl import JsonlTraceDriver

    return {"orchestrator._iso_now": SemantivaOrchestrator._iso_now, "jsonl._now_timestamp": JsonlTraceDriver._now_timestamp}


def _make_clock(which: str):
    def run(known_fps):
        import time

        import z3

        t0 = time.perf_counter()
        res: Dict[str, Any] = {"status": "inconclusive", "queries": 0, "paths": 0, "detail": "", "sample": None}
        fn = _clock_targets()[which]
        try:
            ab = _abstract_timestamp_fn(fn)
        except _Unsupported as e:
            res["detail"] = "translator: unsupported construct in %s: %s" % (which, e)
            return res
        res["sample"] = {"function": which, "abstraction": ab}
        off = z3.Int("host_offset_min")
        T1, T2 = z3.Int("T1_ms"), z3.Int("T2_ms")
        s = z3.Solver()
        s.add(z3.Or([off == o for o in (0, 540, -480, 345)]), T1 >= 0, T2 >= T1)
        digits = (lambda T: T + off * 60000) if ab["digits"] == "local" else (lambda T: T)
        suffix_ok = ab["suffix"] in ("Z", "+00:00")
        # the text claims UTC (suffix) and denotes `digits`; truthful iff digits(T) == T, and monotone iff digits is
        viol = z3.Or(z3.BoolVal(not suffix_ok), digits(T1) != T1, digits(T1) > digits(T2))
        s.add(viol)
        res["queries"] += 1
        r = s.check()
        # reachability twin: the constraints without the violation must be satisfiable
        s2 = z3.Solver()
        s2.add(z3.Or([off == o for o in (0, 540, -480, 345)]), T1 >= 0, T2 >= T1)
        res["queries"] += 1
        twin = str(s2.check())
        if twin != "sat":
            res["detail"] = "vacuous encoding"
            return res
        if str(r) == "unsat":
            res["status"] = "discharged"
            res["nontrivial_queries"] = 2
        elif str(r) == "sat":
            m = s.model()
            o = m.eval(off, model_completion=True).as_long()
            why = "zone-designator:%r" % ab["suffix"] if not suffix_ok else "local-time-labelled-utc"
            res["status"] = "refuted"
            res["fingerprint"] = "C07.B:%s:%s" % (which, why)
            res["counterexample"] = {"which": which, "host_offset_min": o, "abstraction": ab}
            res["detail"] = "%s: digits denote %s time, suffix %r; with host offset %+d min the text denotes another instant than the true UTC instant" % (which, ab["digits"], ab["suffix"], o)
        res["solver_queries"] = res["queries"]
        res["wall_s"] = round(time.perf_counter() - t0, 3)
        res["functions_entered"] = {"semantiva/" + ("execution/orchestrator/orchestrator.py:SemantivaOrchestrator._iso_now" if "iso" in which else "trace/drivers/jsonl.py:JsonlTraceDriver._now_timestamp"): 1}
        return res

    return run


def _replay_clock(which, c):
    """Real function under TZ = the solver's host offset: parse the text as RFC 3339 and compare with time.time()."""
    import subprocess
    import sys

    tzname = {0: "UTC", 540: "Asia/Tokyo", -480: "Etc/GMT+8", 345: "Asia/Kathmandu"}[c["host_offset_min"]]
    code = r'''
import os, time, re, datetime, json, sys
os.environ["TZ"] = %r; time.tzset()
from semantiva.execution.orchestrator.orchestrator import LocalSemantivaOrchestrator
from semantiva.trace.drivers.jsonl import JsonlTraceDriver
which = %r
txt = LocalSemantivaOrchestrator()._iso_now() if "iso" in which else JsonlTraceDriver(None)._now_timestamp()
now = time.time()
m = re.fullmatch(r"(\d{4}-\d\d-\d\dT\d\d:\d\d:\d\d(?:\.\d+)?)(Z|[+-]\d\d:\d\d)", txt)
if not m:
    print(json.dumps({"bad_format": txt})); sys.exit(0)
dt = datetime.datetime.fromisoformat(m.group(1)).replace(tzinfo=datetime.timezone.utc if m.group(2) == "Z" else datetime.datetime.fromisoformat("2000-01-01T00:00:00" + m.group(2)).tzinfo)
print(json.dumps({"text": txt, "denotes_epoch": dt.timestamp(), "true_epoch": now}))
''' % (tzname, c["which"])
    p = subprocess.run([sys.executable, "-c", code], capture_output=True, text=True, timeout=60)
    import json as _json

    try:
        o = _json.loads(p.stdout.strip().splitlines()[-1])
    except Exception:  # noqa: BLE001
        return {"reproduced": False, "fingerprint": "", "detail": "replay failed: %s %s" % (p.stdout[-200:], p.stderr[-400:])}
    if "bad_format" in o:
        return {"reproduced": True, "fingerprint": "C07.B:%s:zone-designator:%r" % (c["which"], c["abstraction"]["suffix"]), "detail": "timestamp %r is not RFC 3339 with exactly one zone designator (TZ=%s)" % (o["bad_format"], tzname)}
    skew = o["denotes_epoch"] - o["true_epoch"]
    if abs(skew) > 5:
        return {"reproduced": True, "fingerprint": "C07.B:%s:local-time-labelled-utc" % c["which"], "detail": "under TZ=%s %s printed %s, which denotes an instant %+.0f s away from the true UTC instant" % (tzname, c["which"], o["text"], skew)}
    return {"reproduced": False, "fingerprint": "", "detail": "timestamp %s is the true UTC instant under TZ=%s" % (o["text"], tzname)}


def templates(tier: str):
    T = shapes.length1() + shapes.curated() + shapes.generated(2)
    if tier == "thorough":
        T += shapes.generated(3)
        seed = int(os.environ.get("VERIF_SEED", "0") or 0)
        T += shapes.drawn(seed * 1299709 + 5, 400, lengths=(4, 5))
    return T


def obligations(tier: str) -> List[Ob]:
    big = tier == "thorough"
    R = C01._replay_simple
    return [
        Ob("C07.U1", _make_u1, lambda p, a: R(_u1)(p, dict(a, ka=p[0], la=p[1])), params=[(x, y) for x in range(4) for y in range(4)], budget=900, per_path=60, bound="keys a,b present/absent in pre and post by 4 flags; value kind (int, bool, None, list) and small int payload symbolic; real _stable_equal", targets=["semantiva/trace/delta_collector.py:DeltaCollector.compute", "semantiva/trace/delta_collector.py:_stable_equal", "semantiva/trace/_utils.py:serialize"]),
        Ob("C07.T", lambda _p: _t, lambda _p, a: R(_t_body)(_p, {"fi": a["fi"], "bi": a["bi"], "failing": a["failing"]}), budget=300,
           bound="controlled wall clock: first reading = one of 4 base seconds (ordinary, :59, end of Feb 29, end of year) + one of 9 sub-second parts around .0005 / .9995 / 1 (symbolic indices), later readings +0.11 ms each; succeeding or failing 2-node run; real JSONL driver",
           targets=["semantiva/execution/orchestrator/orchestrator.py:SemantivaOrchestrator._iso_now", "semantiva/execution/orchestrator/orchestrator.py:SemantivaOrchestrator._start_timing", "semantiva/execution/orchestrator/orchestrator.py:SemantivaOrchestrator._end_timing", "semantiva/trace/drivers/jsonl.py:JsonlTraceDriver._now_timestamp"]),
        Ob("C07.U1b", lambda _p: _u1b, R(_u1b), budget=120, bound="one nested value (mapping in mapping, mapping in list) written in 4 key orders x 2 leaf values on each side (symbolic selectors)", targets=["semantiva/trace/_utils.py:canonical_json_bytes", "semantiva/trace/_utils.py:serialize", "semantiva/trace/delta_collector.py:DeltaCollector.compute"]),
        Ob("C07.U5", lambda _p: _u5, R(_u5), budget=300, per_path=60, bound="two classes with one qualified name and defaults picked by symbolic indices from {2, 5, -1}, run one after the other (traced); the parameter of the second placed in default / node / context / context-with-the-default's-value (selector); payload symbolic", targets=["semantiva/execution/orchestrator/orchestrator.py:SemantivaOrchestrator._resolve_params_with_sources"], stubs=list(STUBS)),
        Ob("C07.U4", lambda _p: _u4, R(_u4), budget=120, bound="clock start and non-negative advance symbolic (whole seconds)", targets=["semantiva/execution/orchestrator/orchestrator.py:SemantivaOrchestrator._end_timing"]),
        Ob("C07.P1", _make_p1, _replay_p1, params=templates(tier), budget=400 if not big else 900, per_path=60,
           bound="per shape template (as C01: length-1, curated, all length-2; thorough +length-3 and a seeded draw), all values and placements symbolic; every SER's parameters/sources/ref/delta/checks vs the recorded run",
           targets=["semantiva/execution/orchestrator/orchestrator.py:SemantivaOrchestrator._resolve_params_with_sources", "semantiva/execution/orchestrator/orchestrator.py:SemantivaOrchestrator._required_keys_for", "semantiva/execution/orchestrator/orchestrator.py:SemantivaOrchestrator._build_pre_checks", "semantiva/execution/orchestrator/orchestrator.py:SemantivaOrchestrator._build_post_checks", "semantiva/trace/delta_collector.py:DeltaCollector.compute"], stubs=list(STUBS)),
        Ob("C07.P2", _make_p2, _replay_p2, params=["hash", "hash,repr", "all"], budget=300, bound="10 templates (incl. delete-only and same-content nodes) x 8 placement patterns, symbolic selectors; concrete values; 3 detail levels with hashing", targets=["semantiva/execution/orchestrator/orchestrator.py:SemantivaOrchestrator._init_summaries", "semantiva/execution/orchestrator/orchestrator.py:SemantivaOrchestrator._augment_output_summaries", "semantiva/trace/_utils.py:canonical_json_bytes"], stubs=["time", "env_pins", "datetime", "str"]),
        Ob("C07.B", _make_clock, _replay_clock, params=["orchestrator._iso_now", "jsonl._now_timestamp"], engine="B", budget=60, bound="host UTC offset in {0, +540, -480, +345} min, instants T1 <= T2 unbounded integers (ms); function body abstracted from its AST on every run", targets=["semantiva/execution/orchestrator/orchestrator.py:SemantivaOrchestrator._iso_now", "semantiva/trace/drivers/jsonl.py:JsonlTraceDriver._now_timestamp"]),
    ]


def extra_coverage(results):
    from vt import stubs

    return {"templates": len([r for r in results if r["oid"] == "C07.P1"]), "stubs": stubs.described(STUBS)}
