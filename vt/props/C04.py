"""C04 -- configuration identities are pure functions of configuration meaning (Engine A + injective-hash model).

P1  key-order invariance: one mapping of the configuration (node dict, nested parameter mapping at depth 1
    and 2, sweep `variables`, sweep `parameters`, the parameter_sweep mapping itself, the run_space block and
    its context mapping) is rebuilt in an insertion order chosen by a symbolic permutation index; all values
    symbolic.  Every identity (node UUIDs, pipeline id, semantic id, config id, node semantic ids, sanitised
    node metadata, sorted required keys, run-space spec id) must equal the identity under the reference order.
P2  +/* operand reordering inside sweep expressions: AC-move pairs (z3 proves them equivalent, C12 encoding)
    must give identical identities.
P3  inspect = runtime: identities of build_inspection_payload(cfg) vs. what the orchestrator hands to the
    trace driver in pipeline_start for the same configuration (values symbolic).
P4  history: the same configuration identified on a Pipeline object before running, after running another
    pipeline, and after running itself (traced) once and twice -- the ids at pipeline_start must not move.
"""
from __future__ import annotations

from typing import Any, Dict, List

from vt import idcfg, ihash
from vt.props import C01
from vt.runner import Fail, Ob

LEVEL = "model_checking"
STUBS = ("time", "serialize_json_safe", "stable_equal", "str", "semantic_id", "env_pins", "datetime")
ASSUMPTIONS = [
    "injective-hash model: SHA-256 and UUIDv5 are collision-free, canonical JSON is injective on JSON values with string keys; identities are compared as pre-images (vt/ihash.py); replays use the real hashes",
    "obligations start from the parsed mapping: YAML text-level rewrites (layout, quoting, anchors, scalar spellings) are decided by PyYAML (C) and not encodable",
    "CrossHair 0.0.110 + z3 5.1 models of int/bool/str/list/dict",
]
OUTSIDE = ["YAML text rewrites", "fresh process / PYTHONHASHSEED / working directory (process-level, no symbolic formulation)", "mappings with more than 5 keys per level"]

MAPPINGS = {"node0": 2, "node1": 2, "node2": 6, "opts1": 6, "opts2": 2, "dict_in_list": 2, "domain_dict": 2, "variables": 6, "parameters": 2, "sweepkeys": 5, "runspace": 4, "rs_context": 2}


def setup_symbolic() -> None:
    from vt import lib, stubs

    stubs.apply(STUBS)
    ihash.install()
    lib.register()


def _run_space(V, P):
    ctx = idcfg.perm_dict({"sv": [[V[8], 2]], "mv": [[3, V[9]]]}, P.get("rs_context", 0))
    block = {"mode": "by_position", "context": ctx}
    return idcfg.perm_dict({"combine": "combinatorial", "max_runs": 50, "blocks": [block], "dry_run": False}, P.get("runspace", 0))


def _make_p1(which: str):
    nperm = MAPPINGS[which]

    def p1(v0: int, v1: int, v2: int, v3: int, v4: int, v5: int, v6: int, v7: int, v8: int, v9: int, t0: int, t1: int, perm: int):
        from vt.engine import assume

        assume(0 <= perm < nperm)
        return _p1_body(which, [v0, v1, v2, v3, v4, v5, v6, v7, v8, v9], [t0, t1], perm, True)

    return p1


def _p1_body(which, V, tvals, perm, model: bool):
    from vt import lib

    lib.register()
    model = bool(ihash.INSTALLED)
    if model:
        ihash.reset()
    ref_cfg = idcfg.config(V, tvals, ({"domain_dict": 0} if which == "domain_dict" else {}), run_space=_run_space(V, {}))
    P = {which: perm}
    cfg = idcfg.config(V, tvals, P, run_space=_run_space(V, P))
    a = idcfg.identities(ref_cfg, model=model)
    b = idcfg.identities(cfg, model=model)
    d = idcfg.first_difference(a, b)
    if d is not None:
        return Fail("C04.P1:key-order:%s:%s" % (which, d), "%s changes when mapping '%s' is written in another key order (permutation %r)" % (d, which, perm))
    return True


def _replay_p1(which, a):
    V = [a["v%d" % i] for i in range(10)]
    v = _p1_body(which, V, [a["t0"], a["t1"]], a["perm"], False)
    return _wrap(v)


def _wrap(v):
    if v is True:
        return {"reproduced": False, "fingerprint": "", "detail": "identities agree on the concrete input (real hashes)"}
    return {"reproduced": True, "fingerprint": v.fingerprint, "detail": v.detail}


# --------------------------------------------------------------------------------------------- P2
def _ac_pairs(limit: int):
    from vt.props import C12

    out = []
    atoms = ["t", "s", "2", ("*", "t", "s"), ("+", "t", "2"), ("*", "s", "2"), ("-", "t", "s"), ("*", "2", "t")]
    seen = set()
    trees = [(op, x, y) for op in ("+", "*") for x in atoms for y in atoms]
    # the same chains under a root that is not a binary operator (call, unary minus, comparison, if-else)
    small = atoms[:5]
    for op in ("+", "*"):
        for x in small:
            for y in small:
                trees += [("abs", (op, x, y)), ("neg", (op, x, y)), ("max", (op, x, y), "2"), ("<", "t", (op, x, y)), ("if", (op, x, y), "t", "s")]
    for t in trees:
        if True:
            if True:
                for t2 in C12.ac_moves(t):
                    key = (C12.text(t), C12.text(t2))
                    if key in seen or key[0] == key[1]:
                        continue
                    seen.add(key)
                    out.append(key)
    return out[:limit]


def _make_p2(param):
    lo, hi = param

    def run(known_fps):
        import time

        from vt import lib
        from vt.z3enc.expr import distinguish

        lib.register()
        t0 = time.perf_counter()
        pairs = _ac_pairs(10000)[lo:hi]
        res = {"status": "discharged", "queries": 0, "unsat": 0, "programs": len(pairs), "sample": None, "detail": "", "paths": 0}
        for e1, e2 in pairs:
            r, model = distinguish(e1, e2, ("t", "s"))
            res["queries"] += 1
            if r != "unsat":
                continue  # not a meaning-preserving rewrite (or unknown): not the subject
            res["unsat"] += 1
            v = _p2_pair(e1, e2)
            if v is not True:
                res["status"] = "refuted"
                res["counterexample"] = {"e1": e1, "e2": e2}
                res["fingerprint"] = v.fingerprint
                res["detail"] = v.detail
                break
            if res["sample"] is None:
                res["sample"] = {"equivalent_spellings": [e1, e2], "z3": "unsat", "identities": "equal"}
        res["nontrivial_queries"] = res["unsat"]
        res["solver_queries"] = res["queries"]
        res["wall_s"] = round(time.perf_counter() - t0, 2)
        res["functions_entered"] = {"semantiva/metadata/semantic_id.py:normalize_expression_sig_v1": len(pairs), "semantiva/inspection/builder.py:build_inspection_payload": 2 * len(pairs)}
        return res

    return run


def _p2_pair(e1, e2):
    V = list(range(10, 20))
    a = idcfg.identities(idcfg.config(V, [1, 2], {}, expr_a=e1, three_vars=False), model=False)
    b = idcfg.identities(idcfg.config(V, [1, 2], {}, expr_a=e2, three_vars=False), model=False)
    d = idcfg.first_difference(a, b)
    if d is not None:
        return Fail("C04.P2:operand-reordering:%s" % d, "%s differs between the equivalent spellings %r and %r" % (d, e1, e2))
    return True


def _replay_p2(param, c):
    from vt import lib

    lib.register()
    return _wrap(_p2_pair(c["e1"], c["e2"]))


# --------------------------------------------------------------------------------------------- P3 / P4
def _start_ids(rec, model: bool):
    X = lambda x: x  # content-addressed tokens compare as text
    meta = rec["meta"]
    return {
        "pipeline_id": X(rec["pipeline_id"]),
        "semantic_id": X(meta.get("semantic_id")),
        "config_id": X(meta.get("config_id")),
        "node_uuids": [X(n["node_uuid"]) for n in rec["canonical"]["nodes"]],
        "node_semantic_ids": X(dict(meta.get("node_semantic_ids") or {})),
    }


def _p3(v0: int, v1: int, v2: int, v3: int, v4: int, v5: int, v6: int, v7: int, t0: int, t1: int, with_sweep: bool, two_sweeps: bool):
    return _p3_body([v0, v1, v2, v3, v4, v5, v6, v7, 0, 0], [t0, t1], with_sweep, True, two_sweeps)


def _p3_body(V, tvals, with_sweep, model: bool, two_sweeps: bool = False):
    from semantiva.context_processors import ContextType
    from semantiva.pipeline import Payload, Pipeline
    from vt import lib
    from vt.memtrace import MemTrace, StopAfterStart

    lib.register()
    model = bool(ihash.INSTALLED)
    if model:
        ihash.reset()
    cfg = idcfg.config(V, tvals, {}, two_sweeps=bool(two_sweeps)) if with_sweep else idcfg.plain_nodes(V)
    ins = idcfg.identities(cfg, model=model)
    tr = MemTrace(stop_after_start=True)
    p = Pipeline([dict(n) for n in cfg], logger=lib.QUIET, trace=tr)
    try:
        p.process(Payload(None, ContextType({"sv": [1], "mv": [2]})))
    except StopAfterStart:
        pass
    if not tr.records:
        return Fail("C04.P3:no-pipeline-start", "no pipeline_start reached the trace driver")
    rt = _start_ids(tr.records[0], model)
    if not (rt["semantic_id"] == ins["semantic_id"]):
        return Fail("C04.P3:inspect-vs-runtime:semantic_id", "semantic_id printed by inspect differs from pipeline_start.meta")
    if not (rt["config_id"] == ins["config_id"]):
        return Fail("C04.P3:inspect-vs-runtime:config_id", "config_id printed by inspect differs from pipeline_start.meta")
    if not (rt["node_uuids"] == ins["node_uuids"] and ins["payload_uuids"] == ins["node_uuids"]):
        return Fail("C04.P3:inspect-vs-runtime:node_uuids", "node UUIDs differ between inspect and pipeline_start")
    exp_sem = {u: s for u, s in zip(ins["payload_uuids"], ins["node_semantic_ids"])}
    got_sem = rt["node_semantic_ids"]
    if not (got_sem == exp_sem):
        return Fail("C04.P3:inspect-vs-runtime:node_semantic_ids", "node semantic ids differ between inspect and pipeline_start")
    if not (rt["pipeline_id"] == ins["pipeline_id"]):
        return Fail("C04.P3:inspect-vs-runtime:pipeline_id", "pipeline id from Pipeline construction differs from pipeline_start")
    return True


def _p4(v0: int, v1: int, v7: int, with_sweep: bool, other_first: bool):
    # sequence values concrete here: the SER provenance deep-copies the sweep metadata through json (realises)
    return _p4_body([v0, v1, 0, 0, 0, 0, 0, v7, 0, 0], [1, 2], with_sweep, other_first, True)


def _p4_body(V, tvals, with_sweep, other_first, model: bool):
    from semantiva.context_processors import ContextType
    from semantiva.pipeline import Payload, Pipeline
    from vt import lib
    from vt.memtrace import MemTrace

    lib.register()
    model = bool(ihash.INSTALLED)
    if model:
        ihash.reset()
    cfg = idcfg.config(V, tvals, {}, three_vars=False) if with_sweep else idcfg.plain_nodes(V)
    if other_first:
        Pipeline(idcfg.plain_nodes([5, 6, 0, 0, 0, 0, 0, 9], order=(0, 2, 1)), logger=lib.QUIET, trace=MemTrace()).process(Payload(None, ContextType({})))
    fresh = idcfg.identities(cfg, model=model)
    tr = MemTrace()
    p = Pipeline([dict(n) for n in cfg], logger=lib.QUIET, trace=tr)
    built = _pid(p)
    seen = []
    for _ in range(2):
        p.process(Payload(None, ContextType({"sv": [1]})))
        starts = [r for r in tr.records if r["record_type"] == "pipeline_start"]
        seen.append(_start_ids(starts[-1], model))
    after = idcfg.identities(cfg, model=model)
    if not (built == fresh["pipeline_id"]):
        return Fail("C04.P4:history:pipeline_id-at-construction", "pipeline id at construction differs from a fresh computation")
    for i, s in enumerate(seen):
        for f in ("pipeline_id", "semantic_id", "config_id", "node_uuids"):
            if not (s[f] == (fresh[f])):
                return Fail("C04.P4:history:%s:run%d" % (f, i + 1), "%s at pipeline_start of run %d of the same Pipeline object differs from the configuration's identity" % (f, i + 1))
    d = idcfg.first_difference(fresh, after)
    if d is not None:
        return Fail("C04.P4:history:after-runs:%s" % d, "%s of the same configuration changed after it had been run" % d)
    return True


def _pid(p):
    from semantiva.pipeline.graph_builder import compute_pipeline_id

    return compute_pipeline_id(p.canonical_spec)


def obligations(tier: str) -> List[Ob]:
    big = tier == "thorough"
    npairs = len(_ac_pairs(10000))
    shards = 8
    step = (npairs + shards - 1) // shards
    return [
        Ob("C04.P1", _make_p1, _replay_p1, params=sorted(MAPPINGS), budget=600, per_path=60,
           bound="10 mappings of the configuration (node dicts, nested parameter mapping depth 1-2, sweep variables/parameters/block, run_space block and context), each rebuilt under a symbolic permutation index (2..6 orders); 10 int values + 2 sequence elements symbolic; 9 identities compared as pre-images",
           targets=["semantiva/pipeline/graph_builder.py:build_canonical_spec", "semantiva/pipeline/graph_builder.py:compute_pipeline_id", "semantiva/inspection/builder.py:build_inspection_payload", "semantiva/metadata/semantic_id.py:compute_node_semantic_id", "semantiva/inspection/builder.py:_compute_run_space_spec_id"], stubs=list(STUBS) + ["injective-hash model for json/hashlib/uuid in graph_builder, semantic_id, inspection.builder"]),
        Ob("C04.P2", _make_p2, _replay_p2, params=[(i * step, min(npairs, (i + 1) * step)) for i in range(shards)], budget=600, engine="B",
           bound="%d pairs of sweep expressions one AC move apart over {t, s, 2} incl. nested chains; z3 proves each pair equivalent; real identities (real hashes) compared" % npairs,
           targets=["semantiva/metadata/semantic_id.py:_dump_ast_commutative", "semantiva/inspection/builder.py:build_inspection_payload"]),
        Ob("C04.P3", lambda _p: _p3, lambda _p, a: _wrap(_p3_body([a["v%d" % i] for i in range(8)] + [0, 0], [a["t0"], a["t1"]], a["with_sweep"], False, a.get("two_sweeps", False))), budget=300, per_path=60,
           bound="configuration without / with one / with two sweep nodes of the same kind (symbolic flags), 8 int values + 2 sequence elements symbolic; inspect payload vs pipeline_start (pipeline_id, semantic_id, config_id, node uuids, node semantic ids)",
           targets=["semantiva/execution/orchestrator/orchestrator.py:SemantivaOrchestrator.execute", "semantiva/inspection/builder.py:build_inspection_payload"], stubs=list(STUBS)),
        Ob("C04.P4", lambda _p: _p4, lambda _p, a: _wrap(_p4_body([a["v0"], a["v1"], 0, 0, 0, 0, 0, a["v7"], 0, 0], [1, 2], a["with_sweep"], a["other_first"], False)), budget=300, per_path=60,
           bound="one Pipeline object: identity at construction, at pipeline_start of run 1 and run 2, and recomputed afterwards; optionally another pipeline traced first; with/without sweep node; values symbolic",
           targets=["semantiva/execution/orchestrator/orchestrator.py:SemantivaOrchestrator.execute", "semantiva/pipeline/pipeline.py:Pipeline.__init__"], stubs=list(STUBS)),
    ]


def extra_coverage(results):
    from vt import stubs

    return {"stubs": stubs.described(STUBS)}
