"""Shared by C04/C05/C09: a parametrised family of configurations and the extraction of every identity
the framework derives from a configuration (as hash pre-images under vt/ihash, or real hashes in replays)."""
from __future__ import annotations

import itertools
from typing import Any, Dict, List, Optional

from vt import ihash

PERM3 = list(itertools.permutations(range(3)))


def ordered(d: Dict[str, Any], order) -> Dict[str, Any]:
    keys = list(d)
    return {keys[i]: d[keys[i]] for i in order if i < len(keys)}


def perm_dict(d: Dict[str, Any], idx) -> Dict[str, Any]:
    """Same mapping, insertion order chosen by permutation index (concrete after a symbolic fork)."""
    keys = list(d)
    if len(keys) == 2:
        return {k: d[k] for k in (keys if not idx else keys[::-1])}
    if len(keys) == 3:
        for j, p in enumerate(PERM3):
            if idx == j:
                return {keys[i]: d[keys[i]] for i in p}
        return dict(d)
    # longer mappings: rotate by idx
    n = len(keys)
    for r in range(n):
        if idx == r:
            return {k: d[k] for k in keys[r:] + keys[:r]}
    return dict(d)


def config(V: List[Any], tvals: List[Any], P: Dict[str, Any], *, element=None, collection="IntColl", expr_a="t + s", expr_b="m", mode="combinatorial", broadcast=False,
           proc1=None, extra_node=False, swap_nodes=False, run_space: Optional[Dict[str, Any]] = None, three_vars=True, seq_var_name="t", two_sweeps=False, unref_vals=None, swap_sweeps=False):
    """P maps a mapping name to a permutation index (absent = reference order)."""
    from vt import lib

    element = element or lib.OpTwo
    proc1 = proc1 or lib.OpNest
    opts2 = perm_dict({"p": V[2], "q": V[3]}, P.get("opts2", 0))
    in_list = perm_dict({"w": V[6], "u": V[7]}, P.get("dict_in_list", 0))  # a mapping that sits inside a list
    opts1 = perm_dict({"x": opts2, "y": V[4], "z": [V[5], in_list]}, P.get("opts1", 0))
    n0 = perm_dict({"processor": lib.SrcD, "parameters": {"value": V[0]}}, P.get("node0", 0))
    n1 = perm_dict({"processor": proc1, "parameters": {"opts": opts1, "k": V[1]}}, P.get("node1", 0))
    tv_list: List[Any] = list(tvals)
    if "domain_dict" in P:
        # sweep values that are mappings themselves (legal: a value is handed to the element as is)
        tv_list = [perm_dict({"g": tvals[0], "h": tvals[1]}, P.get("domain_dict", 0)), {"g": 1, "h": 2}]
    variables: Dict[str, Any] = {seq_var_name: {"values": tv_list}, "s": {"from_context": "sv"}}
    if three_vars:
        variables["m"] = {"from_context": "mv"}
    if unref_vals is not None:
        variables["u"] = {"values": list(unref_vals)}  # declared, published as u_values, read by no expression
    variables = perm_dict(variables, P.get("variables", 0))
    exprs = perm_dict({"a": expr_a, "b": expr_b}, P.get("parameters", 0)) if three_vars else {"a": expr_a}
    sweep = perm_dict({"variables": variables, "parameters": exprs, "mode": mode, "broadcast": broadcast, "collection": collection}, P.get("sweepkeys", 0))
    n2 = perm_dict({"processor": element, "derive": {"parameter_sweep": sweep}, "parameters": {}}, P.get("node2", 0))
    nodes = [n0, n1, n2]
    if two_sweeps:
        # a second sweep node of the same kind (same generated class name) with another definition
        sweep2 = {"variables": {"q": {"values": [V[2], V[3]]}}, "parameters": {"a": "2 * q"}, "mode": "combinatorial", "broadcast": False, "collection": collection}
        n4 = {"processor": element, "derive": {"parameter_sweep": sweep2}, "parameters": {}}
        if swap_sweeps:
            # the two sweep nodes exchange their whole definitions (same element, same plain parameters)
            n2, n4 = dict(n2, derive=n4["derive"]), dict(n4, derive=n2["derive"])
        nodes = [n0, n1, n2, {"processor": lib.OpSum, "parameters": {}}, n4]
    if swap_nodes:
        nodes = [n0, {"processor": lib.OpAddDef, "parameters": {"addend": V[1]}}, {"processor": lib.OpAff, "parameters": {"factor": V[7]}}][:3]
        nodes = [nodes[0], nodes[2], nodes[1]]
    if extra_node:
        nodes = nodes + [{"processor": lib.OpSum, "parameters": {}}]
    if run_space is not None:
        return {"pipeline": {"nodes": nodes}, "run_space": run_space}
    return nodes


def plain_nodes(V: List[Any], order=(0, 1, 2)):
    from vt import lib

    ns = [{"processor": lib.SrcD, "parameters": {"value": V[0]}}, {"processor": lib.OpAddDef, "parameters": {"addend": V[1]}}, {"processor": lib.OpAff, "parameters": {"factor": V[7]}}]
    return [ns[i] for i in order]


def identities(cfg, *, model: bool) -> Dict[str, Any]:
    """Every identity derived from a configuration. With model=True values are expanded pre-images."""
    model = bool(ihash.INSTALLED)
    from semantiva.inspection.builder import build_inspection_payload
    from semantiva.pipeline.graph_builder import build_canonical_spec, compute_pipeline_id

    nodes = cfg["pipeline"]["nodes"] if isinstance(cfg, dict) else cfg
    canonical, _ = build_canonical_spec([dict(n) for n in nodes])
    payload = build_inspection_payload(cfg if isinstance(cfg, dict) else [dict(n) for n in nodes])
    X = lambda x: x  # tokens are content-addressed: equal content <=> equal token text
    out = {
        "node_uuids": [X(n["node_uuid"]) for n in canonical["nodes"]],
        "pipeline_id": X(compute_pipeline_id(canonical)),
        "semantic_id": X(payload["identity"]["semantic_id"]),
        "config_id": X(payload["identity"]["config_id"]),
        "node_semantic_ids": [X(n["node_semantic_id"]) for n in payload["pipeline_spec_canonical"]["nodes"]],
        "payload_uuids": [X(n["uuid"]) for n in payload["pipeline_spec_canonical"]["nodes"]],
        "payload_node_meta": [X(_plain(n["preprocessor_metadata"])) for n in payload["pipeline_spec_canonical"]["nodes"]],
        "required_context_keys": list(payload["required_context_keys"]),
        "run_space_spec_id": X((payload["identity"].get("run_space") or {}).get("spec_id")) if payload["identity"].get("run_space") else None,
    }
    return out


def _plain(o):
    if isinstance(o, dict):
        return {k: _plain(v) for k, v in o.items()}
    if isinstance(o, (list, tuple)):
        return [_plain(v) for v in o]
    return o


ID_FIELDS = ("node_uuids", "pipeline_id", "semantic_id", "config_id", "node_semantic_ids", "payload_uuids", "payload_node_meta", "required_context_keys", "run_space_spec_id")


def first_difference(a: Dict[str, Any], b: Dict[str, Any]) -> Optional[str]:
    for f in ID_FIELDS:
        if not (a[f] == b[f]):
            return f
    return None
