"""Obligation registry, worker pool, replay, verdicts and evidence (DESIGN 3)."""
from __future__ import annotations

import fnmatch
import importlib
import json
import os
import subprocess
import sys
import time
import traceback
from concurrent.futures import ProcessPoolExecutor, as_completed
from dataclasses import dataclass, field
from typing import Any, Callable, Dict, List, Optional

ROOT = os.path.dirname(os.path.dirname(os.path.abspath(__file__)))
PY = os.path.join(ROOT, ".venv", "bin", "python")
KNOWN_FILE = os.path.join(ROOT, "known_findings.json")
OUT = os.environ.get("VERIF_OUT") or ROOT  # development loop only: keep evidence/replays of runs against a scratch worktree apart


class Fail:
    """Falsy verdict of an obligation body carrying a property-specific fingerprint."""

    def __init__(self, fingerprint: str, detail: str = "") -> None:
        self.fingerprint = fingerprint
        self.detail = detail

    def __bool__(self) -> bool:
        return False

    def __repr__(self) -> str:
        return "Fail(%r, %r)" % (self.fingerprint, self.detail)


@dataclass
class Ob:
    """One obligation: `make(param)` returns the symbolic body; `replay(param, args)` re-runs the
    concrete counterexample against the unpatched real code and returns
    {"reproduced": bool, "fingerprint": str, "detail": str}."""

    oid: str
    make: Callable[[Any], Callable[..., Any]]
    replay: Callable[[Any, Dict[str, Any]], Dict[str, Any]]
    params: List[Any] = field(default_factory=lambda: [None])
    budget: float = 120.0
    per_path: float = 30.0
    bound: str = ""
    targets: List[str] = field(default_factory=list)
    stubs: List[str] = field(default_factory=list)
    engine: str = "A"  # "A" = CrossHair path exploration, "B" = direct z3 encoding (make returns a callable -> result dict)


def load_known() -> List[Dict[str, Any]]:
    if not os.path.exists(KNOWN_FILE):
        return []
    with open(KNOWN_FILE) as f:
        return json.load(f).get("findings", [])


def known_match(known: List[Dict[str, Any]], prop: str, fingerprint: str) -> Optional[Dict[str, Any]]:
    for k in known:
        if k.get("status", "open") != "open":
            continue
        if k["property"] == prop and fnmatch.fnmatchcase(fingerprint, k["fingerprint"]):
            return k
    return None


# ----------------------------------------------------------------------------------------------
# worker side
# ----------------------------------------------------------------------------------------------
_WORKER_STATE: Dict[str, Any] = {}


def _worker_task(prop: str, tier: str, oid: str, pidx: int, known_fps: List[str], budget_scale: float) -> Dict[str, Any]:
    t0 = time.perf_counter()
    out: Dict[str, Any] = {"oid": oid, "pidx": pidx}
    try:
        mod = importlib.import_module("vt.props." + prop)
        from vt import xh_patches

        xh_patches.apply()  # before any stub: CrossHair's registration pass resets the patch table
        if not _WORKER_STATE.get(prop):
            if hasattr(mod, "setup_symbolic"):
                mod.setup_symbolic()
            _WORKER_STATE[prop] = True
        obs = {o.oid: o for o in mod.obligations(tier)}
        ob = obs[oid]
        from vt import ihash

        ihash.reset()  # the token table must never carry (dead) symbolic leaves from an earlier obligation of this worker
        param = ob.params[pidx]
        out["param"] = _short(param)
        if ob.engine == "B":
            fn = ob.make(param)
            res = fn(known_fps)
        else:
            from vt import engine

            body = ob.make(param)
            res = engine.explore_with_known(body, known_fps, budget_s=ob.budget * budget_scale, per_path_timeout=ob.per_path)
        out.update(res)
    except BaseException as e:  # noqa: BLE001 - worker must always report
        out["status"] = "harness_error"
        out["detail"] = "worker crashed: %s\n%s" % (repr(e), traceback.format_exc()[-1500:])
    out["task_wall_s"] = round(time.perf_counter() - t0, 3)
    return out


def _short(p: Any) -> Any:
    s = repr(p)
    return s if len(s) <= 300 else s[:297] + "..."


# ----------------------------------------------------------------------------------------------
# parent side
# ----------------------------------------------------------------------------------------------
def run_replay(prop: str, tier: str, oid: str, pidx: int, args: Dict[str, Any], timeout: float = 300.0) -> Dict[str, Any]:
    payload = json.dumps({"prop": prop, "tier": tier, "oid": oid, "pidx": pidx, "args": args})
    env = dict(os.environ)
    env["PYTHONPATH"] = ROOT + os.pathsep + env.get("PYTHONPATH", "")
    env.pop("SEMANTIVA_VERIF", None)
    try:
        p = subprocess.run(
            [PY, "-m", "vt.replay"], input=payload, capture_output=True, text=True, timeout=timeout, cwd=ROOT, env=env
        )
    except subprocess.TimeoutExpired:
        return {"reproduced": False, "fingerprint": "", "detail": "replay timed out"}
    for line in reversed(p.stdout.strip().splitlines()):
        if line.startswith("{"):
            try:
                return json.loads(line)
            except Exception:
                pass
    return {"reproduced": False, "fingerprint": "", "detail": "replay produced no verdict: %s %s" % (p.stdout[-500:], p.stderr[-1500:])}


def run_property(prop: str, tier: str, only: Optional[str] = None, jobs: int = 0, verbose: bool = False) -> int:
    t0 = time.perf_counter()
    seed = int(os.environ.get("VERIF_SEED", "0") or 0)
    os.environ["VERIF_SEED"] = str(seed)
    mod = importlib.import_module("vt.props." + prop)
    obs: List[Ob] = mod.obligations(tier)
    if only:
        obs = [o for o in obs if fnmatch.fnmatchcase(o.oid, only)]
    known = load_known()
    known_fps = [k["fingerprint"] for k in known if k["property"] == prop and k.get("status", "open") == "open"]
    tasks = [(o, i) for o in obs for i in range(len(o.params))]
    jobs = jobs or min(16, os.cpu_count() or 4, max(1, len(tasks)))
    budget_scale = float(os.environ.get("VERIF_BUDGET_SCALE", "1.0"))
    results: List[Dict[str, Any]] = []
    import multiprocessing as mp

    ctx = mp.get_context("spawn")
    hard_wall = max(o.budget for o in obs) * budget_scale * 4 + 600 if obs else 600
    # Workers are recycled after a number of tasks (CrossHair/z3 state grows over thousands of obligations), and a pool
    # broken by a worker that died (e.g. killed by the kernel under memory pressure) is rebuilt for the tasks not yet
    # done; a task that was in flight when the pool broke twice is reported inconclusive, never as a verdict.
    pending = list(tasks)
    attempts: Dict[Any, int] = {}
    deadline_all = time.perf_counter() + hard_wall * max(1, (len(tasks) + jobs - 1) // jobs)
    while pending:
        batch, pending = pending, []
        broken = False
        ex = ProcessPoolExecutor(max_workers=jobs, mp_context=ctx, max_tasks_per_child=150)
        try:
            futs = {ex.submit(_worker_task, prop, tier, o.oid, i, known_fps, budget_scale): (o, i) for (o, i) in batch}
            try:
                for fut in as_completed(futs, timeout=max(60.0, deadline_all - time.perf_counter())):
                    o, i = futs[fut]
                    try:
                        r = fut.result()
                    except BaseException as e:  # noqa: BLE001
                        if type(e).__name__ == "BrokenProcessPool":
                            broken = True
                            n = attempts.get((o.oid, i), 0) + 1
                            attempts[(o.oid, i)] = n
                            if n <= 2:
                                pending.append((o, i))
                                continue
                            r = {"oid": o.oid, "pidx": i, "status": "inconclusive", "detail": "worker process died %d times while this task was queued or running" % n}
                        else:
                            r = {"oid": o.oid, "pidx": i, "status": "harness_error", "detail": "pool: %r" % (e,)}
                    results.append(r)
                    if verbose:
                        print("  [%s#%d] %s paths=%s %.1fs %s" % (r["oid"], r["pidx"], r.get("status"), r.get("paths"), r.get("task_wall_s", 0), (r.get("detail") or "")[:200].replace("\n", " | ")), flush=True)
            except TimeoutError:
                for fut, (o, i) in futs.items():
                    if not fut.done():
                        fut.cancel()
                        results.append({"oid": o.oid, "pidx": i, "status": "inconclusive", "detail": "hard wall timeout in pool"})
                for p_ in list(getattr(ex, "_processes", {}).values()):
                    try:
                        p_.kill()
                    except Exception:
                        pass
                pending = []
        finally:
            ex.shutdown(wait=not broken, cancel_futures=True)

    obmap = {o.oid: o for o in obs}
    os.makedirs(os.path.join(OUT, "replays"), exist_ok=True)
    os.makedirs(os.path.join(OUT, "evidence"), exist_ok=True)
    violations: List[str] = []
    known_lines: List[str] = []
    harness_errors: List[str] = []
    inconclusive: List[str] = []
    n_refuted = 0
    seen_known: Dict[str, Dict[str, Any]] = {}
    for r in sorted(results, key=lambda r: (r["oid"], r["pidx"])):
        st = r.get("status")
        tag = "%s#%d" % (r["oid"], r["pidx"])
        if st == "harness_error":
            harness_errors.append("%s: %s" % (tag, r.get("detail")))
            continue
        if st == "inconclusive":
            inconclusive.append("%s: %s" % (tag, (r.get("detail") or "")[:300]))
        # known hits noted by the body (path passed, but the known defect was observed)
        for kh in r.get("known_hits", []):
            fp = kh["fingerprint"]
            if fp in seen_known:
                continue
            rep = run_replay(prop, tier, r["oid"], r["pidx"], kh["args"])
            k = known_match(known, prop, rep.get("fingerprint") or fp)
            if rep.get("reproduced") and k is not None:
                seen_known[fp] = k
            elif rep.get("reproduced"):
                # reproduces, but under a different fingerprint than any listed: a new violation
                n_refuted += 1
                path = _write_replay(prop, tier, r, kh["args"], rep)
                violations.append("VIOLATION property=%s replay=%s" % (prop, path))
            else:
                harness_errors.append("%s: known-finding candidate %s did not reproduce: %s" % (tag, fp, rep.get("detail", "")[:500]))
        if st == "refuted":
            n_refuted += 1
            args = r.get("counterexample") or {}
            rep = run_replay(prop, tier, r["oid"], r["pidx"], args)
            r["replay"] = rep
            if not rep.get("reproduced"):
                harness_errors.append("%s: counterexample %s did not reproduce on the real code: %s | engine detail: %s" % (tag, json.dumps(args)[:300], (rep.get("detail") or "")[:600], (r.get("detail") or "")[:600]))
                continue
            fp = rep.get("fingerprint") or r.get("fingerprint") or ""
            k = known_match(known, prop, fp)
            if k is not None:
                seen_known.setdefault(fp, k)
                # a known finding stopped this obligation's exploration: the rest of its tree is unexplored
                inconclusive.append("%s: exploration stopped at known finding %s" % (tag, fp))
            else:
                path = _write_replay(prop, tier, r, args, rep)
                violations.append("VIOLATION property=%s replay=%s" % (prop, path))
    printed = set()
    for fp, k in seen_known.items():
        if k["fingerprint"] in printed:
            continue
        printed.add(k["fingerprint"])
        known_lines.append("KNOWN-FINDING: property=%s %s [%s]" % (prop, k["what"], k["fingerprint"]))

    discharged = [r for r in results if r.get("status") == "discharged"]
    nontrivial = [r for r in discharged if (r.get("paths_reached_assert") or r.get("nontrivial_queries") or 0) >= 2]
    funcs: Dict[str, int] = {}
    for r in results:
        for k_, v in (r.get("functions_entered") or {}).items():
            funcs[k_] = funcs.get(k_, 0) + v
    level = getattr(mod, "LEVEL", "model_checking")
    samples = []
    for r in sorted(results, key=lambda r: (r["oid"], r["pidx"]))[:400]:
        if len(samples) >= 12:
            break
        if r.get("sample_path") is not None or r.get("sample") is not None:
            o = obmap[r["oid"]]
            samples.append({"obligation": r["oid"], "param": r.get("param"), "bound": o.bound, "one_explored_path_inputs": r.get("sample_path", r.get("sample")), "status": r.get("status"), "paths": r.get("paths")})
    wall = time.perf_counter() - t0
    coverage: Dict[str, Any] = {
        "evaluations": int(sum(int(r.get("paths") or 0) + int(r.get("queries") or 0) for r in results)),
        "distinct_nontrivial": len(nontrivial),
        "rule": "one evaluation = one symbolic path explored by CrossHair (each branch on a symbolic value is a z3 query) or one z3 query of a generated encoding; "
        "a case = one obligation instance (obligation x shape template); it counts as distinct+non-trivial when it was DISCHARGED (decision tree exhausted, all leaves hold) "
        "and at least 2 of its paths reached the final assertion. Shapes are enumerated, values are solved (DESIGN 3.1).",
        "samples": samples or [{"note": "no obligation produced a sample path"}],
        "obligations": len(results),
        "discharged": len(discharged),
        "refuted": n_refuted,
        "inconclusive": len([r for r in results if r.get("status") == "inconclusive"]),
        "harness_errors": len(harness_errors),
        "known_findings_observed": sorted(seen_known),
        "vacuity_guard": "every discharged obligation had >=1 path reaching the assertion (paths_reached_assert); otherwise it is reported inconclusive",
        "paths_reached_assert": int(sum(int(r.get("paths_reached_assert") or 0) for r in results)),
        "solver_queries": int(sum(int(r.get("solver_queries") or 0) for r in results)),
        "solver_time_s": round(sum(float(r.get("solver_time_s") or 0) for r in results), 2),
        "cpu_time_s": round(sum(float(r.get("wall_s") or 0) for r in results), 2),
        "functions_encoded": sorted(funcs)[:200],
        "functions_encoded_count": len(funcs),
        "bounds": {o.oid: o.bound for o in obs},
        "stubs": sorted({s for o in obs for s in o.stubs}),
        "outside_claim": getattr(mod, "OUTSIDE", []),
        "inconclusive_list": inconclusive[:50],
        "exhaustive": False,
        "per_obligation": [
            {k_: r.get(k_) for k_ in ("oid", "pidx", "param", "status", "paths", "paths_reached_assert", "solver_queries", "solver_time_s", "wall_s", "queries")}
            for r in sorted(results, key=lambda r: (r["oid"], r["pidx"]))
        ][:600],
    }
    if hasattr(mod, "extra_coverage"):
        try:
            coverage.update(mod.extra_coverage(results))
        except Exception as e:  # noqa: BLE001
            coverage["extra_coverage_error"] = repr(e)
    if coverage["distinct_nontrivial"] < 2:
        # counted conservatively; the schema's generic fallback wants >=2, so be explicit when that is not met
        coverage["note"] = "fewer than 2 non-trivial discharged obligations in this run"
    ev = {
        "property_id": prop,
        "tier": tier if tier in ("quick", "thorough") else "quick",
        "seed": seed,
        "level": level,
        "coverage": coverage,
        "assumptions": getattr(mod, "ASSUMPTIONS", []),
        "wall_s": round(wall, 2),
        "violations": len(violations),
    }
    if not only:
        with open(os.path.join(OUT, "evidence", prop + ".json"), "w") as f:
            json.dump(ev, f, indent=1, default=str)
    for line in known_lines:
        print(line)
    for line in inconclusive:
        print("INCONCLUSIVE " + line)
    print(
        "SUMMARY property=%s tier=%s obligations=%d discharged=%d refuted=%d inconclusive=%d harness_errors=%d paths=%d solver_queries=%d solver_time=%.1fs wall=%.1fs"
        % (prop, tier, len(results), len(discharged), n_refuted, coverage["inconclusive"], len(harness_errors), coverage["evaluations"], coverage["solver_queries"], coverage["solver_time_s"], wall)
    )
    if violations:
        for v in violations:
            print(v)
        return 1
    if harness_errors:
        for h in harness_errors:
            print("HARNESS-ERROR " + h)
        return 2
    return 0


def _write_replay(prop: str, tier: str, r: Dict[str, Any], args: Dict[str, Any], rep: Dict[str, Any]) -> str:
    d = os.path.join(OUT, "replays")
    n = 0
    while True:
        path = os.path.join(d, "%s-%s-%d-%d.json" % (prop, r["oid"].replace("/", "_"), r["pidx"], n))
        if not os.path.exists(path):
            break
        n += 1
    with open(path, "w") as f:
        json.dump({"prop": prop, "tier": tier, "oid": r["oid"], "pidx": r["pidx"], "param": r.get("param"), "args": args, "fingerprint": rep.get("fingerprint"), "observed": rep.get("detail")}, f, indent=1, default=str)
    return path


def main(argv: List[str]) -> int:
    import argparse

    ap = argparse.ArgumentParser(prog="check")
    ap.add_argument("prop")
    ap.add_argument("--tier", default=os.environ.get("VERIF_TIER", "quick"), choices=["quick", "thorough"])
    ap.add_argument("--only", default=None, help="glob over obligation ids (debug; does not rewrite evidence)")
    ap.add_argument("--jobs", type=int, default=0)
    ap.add_argument("--replay", default=None)
    ap.add_argument("-v", "--verbose", action="store_true")
    a = ap.parse_args(argv)
    sys.path.insert(0, ROOT)
    if a.replay:
        with open(a.replay) as f:
            rp = json.load(f)
        rep = run_replay(rp["prop"], rp.get("tier", "quick"), rp["oid"], rp["pidx"], rp["args"])
        print(json.dumps(rep, indent=1))
        if rep.get("reproduced"):
            print("VIOLATION property=%s replay=%s" % (rp["prop"], a.replay))
            return 1
        return 0
    return run_property(a.prop, a.tier, a.only, a.jobs, a.verbose)


if __name__ == "__main__":
    sys.exit(main(sys.argv[1:]))
