"""Harness component library (DESIGN 3.2): built on public base classes only, int payloads.

Every component appends (name, received parameter values) to LOG -- the independent account of what ran.
Importing this module applies NO stub: replays import it too and run the unpatched stack.
"""
from __future__ import annotations

from typing import Any, Dict, List, Tuple

from semantiva.context_processors import ContextProcessor, ContextType
from semantiva.data_io import DataSink, DataSource, PayloadSink, PayloadSource
from semantiva.data_processors import DataOperation, DataProbe
from semantiva.data_processors.data_slicer_factory import slice as make_slicer
from semantiva.data_types import BaseDataType, DataCollectionType, NoDataType
from semantiva.logger import Logger
from semantiva.pipeline import Payload, Pipeline

LOG: List[Tuple[str, Dict[str, Any]]] = []
QUIET = Logger(level="CRITICAL")

ALPHABET = ("a", "b", "c", "addend", "factor", "offset", "value", "out")


def reset_log() -> None:
    del LOG[:]


class IntData(BaseDataType[int]):
    """int payload"""


class SubIntData(IntData):
    """subclass of the int payload (type lattice)"""


class OtherData(BaseDataType[int]):
    """unrelated payload type (type lattice)"""


class IntColl(DataCollectionType[IntData, list]):
    """collection of int payloads"""

    @classmethod
    def _initialize_empty(cls):
        return []

    def __iter__(self):
        return iter(self._data)

    def append(self, item):
        self._data.append(item)

    def __len__(self):
        return len(self._data)


class IntColl2(IntColl):
    """second collection type (identity mutation target)"""


# ------------------------------------------------------------------ sources
class SrcV(DataSource):
    """source: IntData(value)"""

    @classmethod
    def _get_data(cls, value: int):
        LOG.append(("SrcV", {"value": value}))
        return IntData(value)

    @classmethod
    def output_data_type(cls):
        return IntData


class SrcD(DataSource):
    """source with default: IntData(value)"""

    @classmethod
    def _get_data(cls, value: int = 42):
        LOG.append(("SrcD", {"value": value}))
        return IntData(value)

    @classmethod
    def output_data_type(cls):
        return IntData


class PSrc(PayloadSource):
    """payload source: data IntData(value), injects context key 'a' = value + 1"""

    @classmethod
    def _get_payload(cls, value: int):
        LOG.append(("PSrc", {"value": value}))
        return Payload(IntData(value), ContextType({"a": value + 1}))

    @classmethod
    def _injected_context_keys(cls):
        return ["a"]

    @classmethod
    def output_data_type(cls):
        return IntData


# ------------------------------------------------------------------ operations
class _IntOp(DataOperation):
    @classmethod
    def input_data_type(cls):
        return IntData

    @classmethod
    def output_data_type(cls):
        return IntData


class OpAdd(_IntOp):
    """x + addend"""

    def _process_logic(self, data, addend: int):
        LOG.append(("OpAdd", {"addend": addend}))
        return IntData(data.data + addend)


class OpAddDef(_IntOp):
    """x + addend, addend defaults to 7"""

    def _process_logic(self, data, addend: int = 7):
        LOG.append(("OpAddDef", {"addend": addend}))
        return IntData(data.data + addend)


class OpAff(_IntOp):
    """3 * x + factor, factor defaults to 3"""

    def _process_logic(self, data, factor: int = 3):
        LOG.append(("OpAff", {"factor": factor}))
        return IntData(3 * data.data + factor)


class OpTwo(_IntOp):
    """x + a - b with b defaulting to 1 (two parameters, one with default)"""

    def _process_logic(self, data, a: int, b: int = 1):
        LOG.append(("OpTwo", {"a": a, "b": b}))
        return IntData(data.data + a - b)


class OpTwoB(_IntOp):
    """same signature as OpTwo, different processor (identity mutation target)"""

    def _process_logic(self, data, a: int, b: int = 1):
        LOG.append(("OpTwoB", {"a": a, "b": b}))
        return IntData(data.data + a + b)


class OpNest(_IntOp):
    """x + k; carries a nested, otherwise unused option mapping (identity of nested parameter values)"""

    def _process_logic(self, data, opts=None, k: int = 0):
        LOG.append(("OpNest", {"k": k}))
        return IntData(data.data + k)


class OpNestB(_IntOp):
    """same signature as OpNest, different processor (identity mutation target)"""

    def _process_logic(self, data, opts=None, k: int = 0):
        LOG.append(("OpNestB", {"k": k}))
        return IntData(data.data - k)


class OpCtxW(_IntOp):
    """passes x+1 on and writes the declared context key 'out' = x + 1"""

    @classmethod
    def context_keys(cls):
        return ["out"]

    def _process_logic(self, data):
        LOG.append(("OpCtxW", {}))
        self._notify_context_update("out", data.data + 1)
        return IntData(data.data + 1)


class OpCtxP(_IntOp):
    """x + addend; writes the declared context key 'last' = addend (a context-writing operation WITH a parameter)"""

    @classmethod
    def context_keys(cls):
        return ["last"]

    def _process_logic(self, data, addend: int):
        LOG.append(("OpCtxP", {"addend": addend}))
        self._notify_context_update("last", addend)
        return IntData(data.data + addend)


class Acc:
    """a stateful helper object handed to a node as a parameter (through a {class, kwargs} descriptor)"""

    def __init__(self, start: int = 0):
        self.n = start

    def bump(self) -> int:
        self.n += 1
        return self.n

    def __repr__(self) -> str:
        return "Acc()"

    def __eq__(self, other) -> bool:
        return isinstance(other, Acc)

    def __hash__(self) -> int:
        return 11

    def to_json(self):
        return {"acc": "Acc"}


class OpAcc(_IntOp):
    """x + acc.bump(): with a fresh helper object per run this is x + 1"""

    def _process_logic(self, data, acc):
        k = acc.bump()
        LOG.append(("OpAcc", {"bumped_to": k}))
        return IntData(data.data + k)


class OpCtxBad(_IntOp):
    """writes a context key it does not declare"""

    @classmethod
    def context_keys(cls):
        return ["out"]

    def _process_logic(self, data):
        LOG.append(("OpCtxBad", {}))
        self._notify_context_update("b", data.data)
        return IntData(data.data)


class OpToOther(DataOperation):
    """changes the payload type IntData -> OtherData"""

    @classmethod
    def input_data_type(cls):
        return IntData

    @classmethod
    def output_data_type(cls):
        return OtherData

    def _process_logic(self, data):
        LOG.append(("OpToOther", {}))
        return OtherData(data.data)


class OpSub(_IntOp):
    """returns the SubIntData subclass"""

    def _process_logic(self, data):
        LOG.append(("OpSub", {}))
        return SubIntData(data.data)


class OpSubDecl(DataOperation):
    """IntData -> SubIntData, declared as such (type lattice: a producer of the subclass)"""

    @classmethod
    def input_data_type(cls):
        return IntData

    @classmethod
    def output_data_type(cls):
        return SubIntData

    def _process_logic(self, data):
        LOG.append(("OpSubDecl", {}))
        return SubIntData(data.data)


class OpNeedSub(DataOperation):
    """SubIntData -> IntData(x + 1): a consumer that requires the subclass"""

    @classmethod
    def input_data_type(cls):
        return SubIntData

    @classmethod
    def output_data_type(cls):
        return IntData

    def _process_logic(self, data):
        LOG.append(("OpNeedSub", {}))
        return IntData(data.data + 1)


class Boom(Exception):
    pass


class OpBoom(_IntOp):
    """raises Boom when its parameter `fire` is truthy"""

    def _process_logic(self, data, fire: int = 1):
        LOG.append(("OpBoom", {"fire": fire}))
        if fire:
            raise Boom("boom")
        return IntData(data.data)


class OpMkColl(DataOperation):
    """IntData x -> IntColl [x, x+1, x+2]"""

    @classmethod
    def input_data_type(cls):
        return IntData

    @classmethod
    def output_data_type(cls):
        return IntColl

    def _process_logic(self, data):
        LOG.append(("OpMkColl", {}))
        return IntColl.from_list([IntData(data.data), IntData(data.data + 1), IntData(data.data + 2)])


class OpSum(DataOperation):
    """IntColl -> IntData(sum)"""

    @classmethod
    def input_data_type(cls):
        return IntColl

    @classmethod
    def output_data_type(cls):
        return IntData

    def _process_logic(self, data):
        LOG.append(("OpSum", {}))
        t = 0
        for it in data:
            t = t + it.data
        return IntData(t)


# ------------------------------------------------------------------ probes
class PrVal(DataProbe):
    """probe: x"""

    @classmethod
    def input_data_type(cls):
        return IntData

    def _process_logic(self, data):
        LOG.append(("PrVal", {}))
        return data.data


class PrParam(DataProbe):
    """probe: x + offset, offset defaults to 0"""

    @classmethod
    def input_data_type(cls):
        return IntData

    def _process_logic(self, data, offset: int = 0):
        LOG.append(("PrParam", {"offset": offset}))
        return data.data + offset


class PrReq(DataProbe):
    """probe: x + offset, offset required"""

    @classmethod
    def input_data_type(cls):
        return IntData

    def _process_logic(self, data, offset: int):
        LOG.append(("PrReq", {"offset": offset}))
        return data.data + offset


# ------------------------------------------------------------------ sinks
class Snk(DataSink):
    """sink: records what it received"""

    @classmethod
    def _send_data(cls, data, tag: int = 0):
        LOG.append(("Snk", {"tag": tag, "data": data.data}))

    @classmethod
    def input_data_type(cls):
        return IntData


class PSnk(PayloadSink):
    """payload sink: records what it received"""

    @classmethod
    def _send_payload(cls, payload, tag: int = 0):
        LOG.append(("PSnk", {"tag": tag, "data": payload.data.data}))

    @classmethod
    def input_data_type(cls):
        return IntData


# ------------------------------------------------------------------ context processors
class CpSum(ContextProcessor):
    """context processor: out = a + b (b defaults to 10)"""

    @classmethod
    def get_created_keys(cls):
        return ["out"]

    @classmethod
    def context_keys(cls):
        return ["out"]

    def _process_logic(self, a: int, b: int = 10):
        LOG.append(("CpSum", {"a": a, "b": b}))
        self._notify_context_update("out", a + b)


class CpBad(ContextProcessor):
    """context processor writing a key it does not declare"""

    @classmethod
    def get_created_keys(cls):
        return ["out"]

    def _process_logic(self, a: int):
        LOG.append(("CpBad", {"a": a}))
        self._notify_context_update("c", a)


SlAdd = make_slicer(OpAdd, IntColl)
SlAddDef = make_slicer(OpAddDef, IntColl)
SlPrParam = make_slicer(PrParam, IntColl)
SlCtxW = make_slicer(OpCtxW, IntColl)  # a slicer over a context-writing operation


def register() -> None:
    """Make the library resolvable by name (sweeps resolve `collection` through the registry)."""
    from semantiva.registry.processor_registry import ProcessorRegistry

    for cls in (IntData, SubIntData, OtherData, IntColl, IntColl2, OpTwoB, OpNest, OpNestB, SrcV, SrcD, PSrc, OpAdd, OpAddDef, OpAff, OpTwo, OpCtxW, OpCtxP, OpAcc, OpCtxBad, OpToOther, OpSub, OpSubDecl, OpNeedSub, OpBoom, OpMkColl, OpSum, PrVal, PrParam, PrReq, Snk, PSnk, CpSum, CpBad):
        ProcessorRegistry.register_processor(cls.__name__, cls)


def run_pipeline(nodes, data, ctx: Dict[str, Any], trace=None, transport=None):
    """Real Pipeline(nodes).process(Payload(data, ContextType(ctx))) -> (data, context dict)."""
    p = Pipeline(nodes, logger=QUIET, trace=trace, transport=transport)
    res = p.process(Payload(data, ContextType(dict(ctx))))
    return res.data, res.context.to_dict()
