"""Injective-hash model (DESIGN 3.3): SHA-256 / UUIDv5 / canonical JSON become opaque tokens naming the
structure that was fed to them, kept in a side table.  Identities are then compared as *pre-images* with
symbolic leaves; the comparison of leaves is a z3 query.

Assumptions (listed in evidence): collision-freedom of SHA-256 and UUIDv5; injectivity of canonical JSON on
JSON values with string keys.  json.dumps(sort_keys=False) keeps insertion order in the token, so a missing
sort_keys=True is visible.  Replays use the real hashes on the solver's concrete values.
"""
from __future__ import annotations

import re
from typing import Any, List

_TABLE: List[Any] = []
_TOK = re.compile(r"\(#(\d+)#\)")


def reset() -> None:
    del _TABLE[:]


def _tok(struct) -> str:
    """Content-addressed: an equal structure gets the same token (so code that SORTS by an id sees an order
    that is a function of content, as with the real hashes).  Equality of symbolic leaves is a solver query."""
    for i, old in enumerate(_TABLE):
        if old[0] == struct[0] and _same(old, struct):
            return "(#%d#)" % i
    _TABLE.append(struct)
    return "(#%d#)" % (len(_TABLE) - 1)


def _same(a, b) -> bool:
    if isinstance(a, tuple) and isinstance(b, tuple):
        if len(a) != len(b):
            return False
        for x, y in zip(a, b):
            if not _same(x, y):
                return False
        return True
    if isinstance(a, tuple) or isinstance(b, tuple):
        return False
    if type(a) is str and type(b) is str:
        return a == b
    if type(a) is bytes and type(b) is bytes:
        return a == b
    if isinstance(a, bool) != isinstance(b, bool):
        return False
    if (type(a) is float) != (type(b) is float):
        return False  # JSON writes 2 and 2.0 differently
    try:
        return bool(a == b)
    except Exception:
        return False


def freeze(o, sort_keys=True):
    if isinstance(o, dict):
        items = [(k, freeze(v, sort_keys)) for k, v in o.items()]
        if sort_keys:
            items = sorted(items, key=lambda kv: kv[0])
        return ("D", tuple(items))
    if isinstance(o, (list, tuple)):
        return ("L", tuple(freeze(v, sort_keys) for v in o))
    return o


def _reject_non_finite(o) -> None:
    if isinstance(o, dict):
        for v in o.values():
            _reject_non_finite(v)
    elif isinstance(o, (list, tuple)):
        for v in o:
            _reject_non_finite(v)
    elif type(o) is float and (o != o or o in (float("inf"), float("-inf"))):
        raise ValueError("Out of range float values are not JSON compliant")


class FakeJson:
    import json as _real

    JSONDecodeError = _real.JSONDecodeError

    @staticmethod
    def dumps(obj, sort_keys=False, **kw):
        if kw.get("allow_nan") is False:
            _reject_non_finite(obj)  # json.dumps(allow_nan=False) raises ValueError on nan / +-inf
        return _tok(("json", freeze(obj, sort_keys)))

    @staticmethod
    def loads(s, **kw):
        return FakeJson._real.loads(s, **kw)


class _H:
    def __init__(self, data=b""):
        self.parts = [data] if data else []

    def update(self, d):
        self.parts.append(d)

    def hexdigest(self):
        return _tok(("sha256", tuple(self.parts)))


class FakeHashlib:
    sha256 = _H


class FakeUUID:
    import uuid as _real

    UUID = _real.UUID

    @staticmethod
    def uuid5(ns, name):
        return _tok(("uuid5", name))

    @staticmethod
    def uuid4():
        return FakeUUID._real.uuid4()


def expand(x):
    """Replace tokens by their structures, recursively -> nested tuples with the original (symbolic) leaves."""
    if isinstance(x, bytes):
        x = x.decode("utf-8")
    if type(x) is str:
        if "(#" not in x:
            return x
        parts = []
        pos = 0
        for m in _TOK.finditer(x):
            if m.start() > pos:
                parts.append(x[pos:m.start()])
            parts.append(expand(_TABLE[int(m.group(1))]))
            pos = m.end()
        if pos < len(x):
            parts.append(x[pos:])
        return ("S", tuple(parts))
    if isinstance(x, tuple):
        return tuple(expand(v) for v in x)
    if isinstance(x, list):
        return tuple(expand(v) for v in x)
    if isinstance(x, dict):
        return ("D", tuple((k, expand(v)) for k, v in sorted(x.items(), key=lambda kv: kv[0])))
    return x


INSTALLED = []


def install() -> None:
    """Symbolic runs only: route json/hashlib/uuid of the identity-bearing modules through the model."""
    import semantiva.inspection.builder as ib
    import semantiva.metadata.semantic_id as sid
    import semantiva.pipeline.graph_builder as gb

    if INSTALLED:
        return
    for mod in (gb, sid, ib):
        if hasattr(mod, "json"):
            mod.json = FakeJson
        if hasattr(mod, "hashlib"):
            mod.hashlib = FakeHashlib
        if hasattr(mod, "uuid"):
            mod.uuid = FakeUUID
    try:
        import semantiva.trace.runtime.run_space_identity as rsi

        for name, fake in (("json", FakeJson), ("hashlib", FakeHashlib), ("uuid", FakeUUID)):
            if hasattr(rsi, name):
                setattr(rsi, name, fake)
        import semantiva.trace.runtime.run_space_launch as rsl

        for name, fake in (("json", FakeJson), ("hashlib", FakeHashlib)):
            if hasattr(rsl, name):
                setattr(rsl, name, fake)
    except Exception:
        pass
    INSTALLED.append(True)
