"""Reference model of the documented dual-channel node semantics (DESIGN 4 C01), ~150 lines.

It interprets the same shape templates as the real run (vt/shapes.py DSL) over the same -- possibly symbolic --
values and predicts: final data, final context, the log of component invocations (name + received parameter
values), the per-node context after each node, and, when the semantics prescribe a failure, the failing node
index and the admissible exception classes.  It never imports semantiva.

Documented rules encoded here (docs/source: concepts.rst, context_processors.rst, data_probes.rst, pipeline.rst):
  * parameter resolution: node configuration > context > processor default, else KeyError at that node;
  * operations replace the data; probes leave data unchanged and store the result under context_key;
  * context processors create/remove only declared keys (undeclared write -> KeyError);
  * rename:src:dst reads src (a parameter: config > context), writes dst, removes src; delete:key removes key;
    template:"..":out renders str() of the placeholders; missing keys -> KeyError;
  * slicers map element-wise in order; sources ignore their input (and require NoDataType input at run time);
    sinks pass data through; a payload source's injected keys must not already exist (KeyError);
  * a data node whose input is not an instance of its declared input type raises TypeError.
"""
from __future__ import annotations

from typing import Any, Dict, List, Optional, Tuple

NO = object()

# name -> (input type, params [(name, default|NO)], kind)
SPEC: Dict[str, Tuple[str, List[Tuple[str, Any]], str]] = {
    "SrcV": ("none", [("value", NO)], "src"),
    "SrcD": ("none", [("value", 42)], "src"),
    "PSrc": ("none", [("value", NO)], "psrc"),
    "OpAdd": ("int", [("addend", NO)], "op"),
    "OpAddDef": ("int", [("addend", 7)], "op"),
    "OpAff": ("int", [("factor", 3)], "op"),
    "OpTwo": ("int", [("a", NO), ("b", 1)], "op"),
    "OpCtxW": ("int", [], "op"),
    "OpCtxBad": ("int", [], "op"),
    "OpToOther": ("int", [], "op"),
    "OpSub": ("int", [], "op"),
    "OpSubDecl": ("int", [], "op"),
    "OpNeedSub": ("subint", [], "op"),
    "OpBoom": ("int", [("fire", 1)], "op"),
    "OpMkColl": ("int", [], "op"),
    "OpSum": ("coll", [], "op"),
    "PrVal": ("int", [], "probe"),
    "PrParam": ("int", [("offset", 0)], "probe"),
    "PrReq": ("int", [("offset", NO)], "probe"),
    "Snk": ("int", [("tag", 0)], "sink"),
    "PSnk": ("int", [("tag", 0)], "sink"),
    "CpSum": ("any", [("a", NO), ("b", 10)], "cp"),
    "CpBad": ("any", [("a", NO)], "cp"),
}


class Fails(Exception):
    def __init__(self, exc_names: Tuple[str, ...], why: str):
        self.exc_names = exc_names
        self.why = why


def _isinst(data, want: str) -> bool:
    tag = data[0]
    if want == "any":
        return True
    if want == "int":
        return tag in ("int", "subint")
    return tag == want


def _resolve(name: str, default: Any, cfg: Dict[str, Any], ctx: Dict[str, Any]):
    if name in cfg:
        return cfg[name]
    if name in ctx:
        return ctx[name]
    if default is not NO:
        return default
    raise Fails(("KeyError",), "unresolvable parameter %s" % name)


def _apply(comp: str, x, p: Dict[str, Any], ctx: Dict[str, Any], log: List):
    """Element function of a component on one int payload value -> new data tuple."""
    if comp == "OpAdd" or comp == "OpAddDef":
        log.append((comp, {"addend": p["addend"]}))
        return ("int", x + p["addend"])
    if comp == "OpAff":
        log.append((comp, {"factor": p["factor"]}))
        return ("int", 3 * x + p["factor"])
    if comp == "OpTwo":
        log.append((comp, {"a": p["a"], "b": p["b"]}))
        return ("int", x + p["a"] - p["b"])
    if comp == "OpCtxW":
        log.append((comp, {}))
        ctx["out"] = x + 1
        return ("int", x + 1)
    if comp == "OpCtxBad":
        log.append((comp, {}))
        raise Fails(("KeyError",), "write to undeclared context key")
    if comp == "OpToOther":
        log.append((comp, {}))
        return ("other", x)
    if comp == "OpSub" or comp == "OpSubDecl":
        log.append((comp, {}))
        return ("subint", x)
    if comp == "OpNeedSub":
        log.append((comp, {}))
        return ("int", x + 1)
    if comp == "OpBoom":
        log.append((comp, {"fire": p["fire"]}))
        if p["fire"]:
            raise Fails(("Boom",), "processor error")
        return ("int", x)
    if comp == "OpMkColl":
        log.append((comp, {}))
        return ("coll", [x, x + 1, x + 2])
    raise AssertionError(comp)


def run(nodes: List[tuple], data, ctx0: Dict[str, Any]):
    """-> dict(outcome='ok'|'fail', data, ctx, log, ctx_after=[...], fail_index, exc_names, why)."""
    ctx = dict(ctx0)
    log: List = []
    ctx_after: List[Dict[str, Any]] = []
    i = -1
    try:
        for i, nd in enumerate(nodes):
            kind = nd[0]
            if kind in ("comp", "slice"):
                comp, cfg = nd[1], nd[2]
                ckey = nd[3] if len(nd) > 3 else None
                in_t, params, ck = SPEC[comp]
                if kind == "slice":
                    in_t = "coll"
                if ck in ("src", "psrc"):
                    if data[0] != "none":
                        raise Fails(("TypeError",), "source node fed with data")
                elif ck != "cp" and not _isinst(data, in_t):
                    raise Fails(("TypeError",), "type gate")
                p = {}
                for (pn, dflt) in params:
                    p[pn] = _resolve(pn, dflt, cfg, ctx)
                if ck == "src":
                    log.append((comp, {"value": p["value"]}))
                    data = ("int", p["value"])
                elif ck == "psrc":
                    log.append((comp, {"value": p["value"]}))
                    if "a" in ctx:
                        raise Fails(("KeyError",), "payload source key collision")
                    ctx["a"] = p["value"] + 1
                    data = ("int", p["value"])
                elif ck == "sink":
                    log.append((comp, {"tag": p["tag"], "data": data[1]}))
                elif ck == "cp":
                    log.append((comp, dict(p)))
                    if comp == "CpBad":
                        raise Fails(("KeyError",), "undeclared context write")
                    ctx["out"] = p["a"] + p["b"]
                elif ck == "probe":
                    if kind == "slice":
                        res = []
                        for x in data[1]:
                            log.append((comp, {"offset": p["offset"]}))
                            res.append(x + p["offset"])
                    elif comp == "PrVal":
                        log.append((comp, {}))
                        res = data[1]
                    else:
                        log.append((comp, {"offset": p["offset"]}))
                        res = data[1] + p["offset"]
                    ctx[ckey] = res
                else:  # op
                    if kind == "slice":
                        out = []
                        for x in data[1]:
                            out.append(_apply(comp, x, p, ctx, log)[1])
                        data = ("coll", out)
                    elif comp == "OpSum":
                        log.append((comp, {}))
                        t = 0
                        for x in data[1]:
                            t = t + x
                        data = ("int", t)
                    else:
                        data = _apply(comp, data[1], p, ctx, log)
            elif kind == "rename":
                src, dst = nd[1], nd[2]
                v = _resolve(src, NO, {}, ctx)
                if v is not None:
                    ctx[dst] = v
                    del ctx[src]
            elif kind == "delete":
                key = nd[1]
                v = _resolve(key, NO, {}, ctx)
                if v is not None:
                    del ctx[key]
            elif kind == "template":
                tpl_keys, out = nd[1], nd[2]
                vals = [_resolve(k, NO, {}, ctx) for k in tpl_keys]
                ctx[out] = "_".join(str(v) for v in vals)
            else:
                raise AssertionError(kind)
            ctx_after.append(dict(ctx))
    except Fails as f:
        return {"outcome": "fail", "fail_index": i, "exc_names": f.exc_names, "why": f.why, "log": log, "ctx_after": ctx_after, "ctx": ctx, "data": data}
    return {"outcome": "ok", "data": data, "ctx": ctx, "log": log, "ctx_after": ctx_after}
