"""Engine A: exhaustive symbolic path exploration of an obligation body with CrossHair + z3.

An obligation *body* is an ordinary Python function over the real semantiva code whose parameters are
annotated with the types CrossHair should make symbolic.  It returns True when the property held on
that path, False (or raises) when it did not; `assume(cond)` prunes inputs outside the stated bound.

The verdict is the solver's:
  discharged   -- the decision tree of the body was exhausted and every leaf returned True
                  (and at least one leaf reached the final assertion: vacuity guard);
  refuted      -- some leaf returned False / raised; the model of that leaf is realised into concrete
                  arguments (to be replayed against the unpatched code by the caller);
  inconclusive -- anything else (time budget, z3 unknown, unsupported construct, unexplored path).
"""
from __future__ import annotations

import inspect
import time
import traceback
from typing import Any, Callable, Dict, Optional

from . import xh_patches
from .paths import REPO as _REPO

xh_patches.apply()

from crosshair.core import (  # noqa: E402
    ExceptionFilter,
    Patched,
    deep_realize,
    gen_args,
    realize,
)
from crosshair.condition_parser import condition_parser  # noqa: E402
from crosshair.copyext import CopyMode, deepcopyext  # noqa: E402
from crosshair.options import DEFAULT_OPTIONS  # noqa: E402
from crosshair.statespace import (  # noqa: E402
    CallAnalysis,
    RootNode,
    StateSpace,
    StateSpaceContext,
    VerificationStatus,
)
from crosshair.tracers import COMPOSITE_TRACER, NoTracing, ResumedTracing, TracingModule  # noqa: E402
from crosshair.util import IgnoreAttempt, UnexploredPath, NotDeterministic  # noqa: E402


def assume(cond) -> None:
    """Bound / precondition: paths violating it are outside the claim."""
    if not cond:
        raise IgnoreAttempt("assumption")


class _CallRecorder(TracingModule):
    """Records which functions of /repo the symbolic execution actually entered."""

    def __init__(self) -> None:
        self.seen: Dict[str, int] = {}

    def trace_call(self, frame, fn, binding_target):
        code = getattr(fn, "__code__", None)
        if code is not None:
            f = code.co_filename
            if f.startswith(_REPO + "/semantiva/"):
                key = f[len(_REPO) + 1:] + ":" + getattr(fn, "__qualname__", code.co_name)
                self.seen[key] = self.seen.get(key, 0) + 1
        return None


def _plain(x: Any) -> Any:
    """JSON-able rendering of realised arguments."""
    if isinstance(x, (bool, int, str)) or x is None:
        return x
    if isinstance(x, float):
        return x
    if isinstance(x, (list, tuple)):
        return [_plain(v) for v in x]
    if isinstance(x, dict):
        return {str(k): _plain(v) for k, v in x.items()}
    if isinstance(x, (set, frozenset)):
        return sorted(_plain(v) for v in x)
    return repr(x)


class _Isolation:
    """Every explored path is one independent history: module-level and class-level containers of the code under test
    (caches, registries, memo tables) are put back, in place, to their content at the start of the obligation before
    each path.  Otherwise state left behind by one path leaks into the next, and a counterexample found there would
    not be the history its arguments describe (it would not reproduce in the fresh replay process)."""

    _preloaded = False

    def __init__(self, prefix: str = "semantiva"):
        import sys

        if not _Isolation._preloaded:
            # modules imported lazily by a path would otherwise be seen (and snapshotted) only after that path changed them
            _Isolation._preloaded = True
            try:
                import importlib
                import pkgutil

                pkg = importlib.import_module(prefix)
                for mi in pkgutil.walk_packages(pkg.__path__, prefix + "."):
                    if ".examples" in mi.name or mi.name.endswith("__main__"):
                        continue
                    try:
                        importlib.import_module(mi.name)
                    except BaseException:  # noqa: BLE001 - optional dependencies
                        pass
            except BaseException:  # noqa: BLE001
                pass
        self.items = []
        seen = set()
        for mname, mod in list(sys.modules.items()):
            if mod is None or not (mname == prefix or mname.startswith(prefix + ".")):
                continue
            holders = [mod]
            for v in list(vars(mod).values()):
                if isinstance(v, type) and getattr(v, "__module__", None) == mname:
                    holders.append(v)
            for h in holders:
                for name, val in list(vars(h).items()):
                    if name.startswith("__") or id(val) in seen:
                        continue
                    if type(val) in (dict, list, set):
                        seen.add(id(val))
                        self.items.append((val, type(val)(val)))

    def restore(self) -> None:
        for live, saved in self.items:
            try:
                if type(live) is list:
                    if len(live) != len(saved) or any(a is not b for a, b in zip(live, saved)):
                        live[:] = saved
                elif type(live) is dict:
                    if len(live) != len(saved) or any(k not in live or live[k] is not v for k, v in saved.items()):
                        live.clear()
                        live.update(saved)
                else:
                    if live != saved:
                        live.clear()
                        live.update(saved)
            except BaseException:  # noqa: BLE001 - isolation is best effort (a container may hold dead symbolic keys)
                try:
                    live.clear()
                    if type(live) is list:
                        live.extend(saved)
                    else:
                        live.update(saved)
                except BaseException:  # noqa: BLE001
                    pass


def explore_with_known(body, known_fps, budget_s=120.0, per_path_timeout=30.0, max_paths=100000):
    return explore(body, budget_s=budget_s, per_path_timeout=per_path_timeout, max_paths=max_paths, known_fps=known_fps)


def _is_known(fp: str, known_fps) -> bool:
    import fnmatch

    return any(fnmatch.fnmatchcase(fp, k) for k in known_fps)


def explore(
    body: Callable[..., Any],
    budget_s: float = 120.0,
    per_path_timeout: float = 30.0,
    max_paths: int = 100000,
    record_calls: bool = True,
    known_fps=(),
) -> Dict[str, Any]:
    sig = inspect.signature(body, eval_str=True)
    options = DEFAULT_OPTIONS.overlay(
        per_condition_timeout=budget_s, per_path_timeout=per_path_timeout, max_iterations=max_paths
    )
    search_root = RootNode()
    recorder = _CallRecorder() if record_calls else None
    q0 = dict(xh_patches.SOLVER_STATS)
    t_start = time.perf_counter()
    p_start = time.process_time()
    res: Dict[str, Any] = {
        "status": "inconclusive",
        "paths": 0,
        "paths_reached_assert": 0,
        "paths_ignored": 0,
        "paths_unknown": 0,
        "counterexample": None,
        "detail": "",
        "sample_path": None,
        "known_hits": [],
        "fingerprint": None,
    }
    known_seen = set()
    exhausted = False
    refuted = False
    import os as _os

    iso = _Isolation() if _os.environ.get("VERIF_NO_ISOLATION") != "1" else None
    for i in range(1, max_paths + 1):
        if iso is not None:
            iso.restore()
        itr_start = time.process_time()
        if itr_start > p_start + budget_s:
            res["detail"] = "time budget %.0fs exhausted after %d paths" % (budget_s, i - 1)
            break
        space = StateSpace(
            execution_deadline=itr_start + per_path_timeout,
            model_check_timeout=per_path_timeout / 2,
            search_root=search_root,
        )
        res["paths"] += 1
        with condition_parser(options.analysis_kind), Patched(), COMPOSITE_TRACER, NoTracing(), StateSpaceContext(space):
            if recorder is not None:
                COMPOSITE_TRACER.push_module(recorder)
            try:
                status: Optional[VerificationStatus]
                try:
                    pre_args = gen_args(sig)
                    args = deepcopyext(pre_args, CopyMode.REGULAR, {})
                    ret: object = None
                    with ExceptionFilter() as efilter, ResumedTracing():
                        ret = body(*args.args, **args.kwargs)
                    if efilter.ignore:
                        res["paths_ignored"] += 1
                        status = efilter.analysis.verification_status
                    elif efilter.user_exc is not None:
                        exc, tb = efilter.user_exc
                        if isinstance(exc, NotDeterministic):
                            raise exc
                        if type(exc).__name__ == "HarnessStall" and "did not reach a preemption point" in str(exc):
                            # the thread scheduler's watchdog fired (machine under load): no verdict for this path
                            raise UnexploredPath("HarnessStall: %s" % (str(exc)[:160],))
                        with ResumedTracing():
                            space.detach_path(exc)
                        concrete = deep_realize(pre_args.arguments)
                        res["counterexample"] = _plain(dict(concrete))
                        res["detail"] = "body raised %s: %s\n%s" % (
                            type(exc).__name__,
                            str(exc)[:500],
                            "".join(tb.format()[-6:]),
                        )
                        refuted = True
                        status = VerificationStatus.REFUTED
                    else:
                        with ResumedTracing():
                            ok = bool(ret)
                        ok = realize(ok)
                        res["paths_reached_assert"] += 1
                        fp = getattr(ret, "fingerprint", None) if not ok else None
                        if fp is not None and fp.endswith("harness-step-bound"):
                            # the harness's own step bound was too small for this path: no verdict (inconclusive), not a finding
                            raise UnexploredPath("harness step bound: %s" % (getattr(ret, "detail", "")[:160],))
                        if fp is not None and _is_known(fp, known_fps):
                            # a listed known finding: note it (one witness per fingerprint) and keep exploring
                            if fp not in known_seen:
                                known_seen.add(fp)
                                with ResumedTracing():
                                    space.detach_path()
                                res["known_hits"].append({"fingerprint": fp, "args": _plain(dict(deep_realize(pre_args.arguments))), "detail": getattr(ret, "detail", "")})
                            status = VerificationStatus.CONFIRMED
                        elif ok:
                            status = VerificationStatus.CONFIRMED
                            if res["sample_path"] is None:
                                with ResumedTracing():
                                    space.detach_path()
                                res["sample_path"] = _plain(dict(deep_realize(pre_args.arguments)))
                        else:
                            with ResumedTracing():
                                space.detach_path()
                            concrete = deep_realize(pre_args.arguments)
                            res["counterexample"] = _plain(dict(concrete))
                            res["detail"] = "obligation returned %r" % (ret,)
                            res["fingerprint"] = fp
                            refuted = True
                            status = VerificationStatus.REFUTED
                except IgnoreAttempt:
                    res["paths_ignored"] += 1
                    status = None
                except UnexploredPath as e:
                    res["paths_unknown"] += 1
                    res["detail"] = "unexplored path: %s %s" % (type(e).__name__, str(e)[:200])
                    status = VerificationStatus.UNKNOWN
                except NotDeterministic:
                    res["paths_unknown"] += 1
                    res["detail"] = "NotDeterministic: " + traceback.format_exc()[-800:]
                    status = VerificationStatus.UNKNOWN
            finally:
                if recorder is not None:
                    try:
                        COMPOSITE_TRACER.pop_config(recorder)
                    except Exception:
                        pass
            _analysis, exhausted = space.bubble_status(CallAnalysis(status))
        if refuted or exhausted:
            break
    if iso is not None:
        iso.restore()  # leave no trace of the last path behind: the next obligation of this worker snapshots afresh
    top = search_root.child.get_result()
    if refuted:
        res["status"] = "refuted"
    elif exhausted and top.verification_status is VerificationStatus.CONFIRMED:
        if res["paths_reached_assert"] >= 1:
            res["status"] = "discharged"
        else:
            res["status"] = "inconclusive"
            res["detail"] = "vacuous: no path reached the assertion"
    else:
        res["status"] = "inconclusive"
        if not res["detail"]:
            res["detail"] = "tree not exhausted / unknown leaf (status %s)" % (
                top.verification_status.name if top.verification_status else None
            )
    q1 = xh_patches.SOLVER_STATS
    res["solver_queries"] = q1["queries"] - q0["queries"]
    res["solver_time_s"] = round(q1["seconds"] - q0["seconds"], 3)
    res["solver_unknown"] = q1["unknown"] - q0["unknown"]
    res["wall_s"] = round(time.perf_counter() - t_start, 3)
    res["functions_entered"] = dict(recorder.seen) if recorder is not None else {}
    return res
