"""In-memory TraceDriver (public extension point): records what the runtime hands to a trace driver."""
from __future__ import annotations

from typing import Any, Dict, List


class StopAfterStart(Exception):
    pass


class MemTrace:
    def __init__(self, options=None, stop_after_start: bool = False):
        self.records: List[Dict[str, Any]] = []
        self.flushed = 0
        self.closed = 0
        self._options = options if options is not None else {"hash": False, "repr": False, "context": False}
        self._stop = stop_after_start

    def get_options(self):
        return dict(self._options)

    def on_pipeline_start(self, pipeline_id, run_id, pipeline_spec_canonical, meta, pipeline_input=None, **kw):
        import copy

        self.records.append({"record_type": "pipeline_start", "pipeline_id": pipeline_id, "run_id": run_id,
                             "canonical": {"nodes": [dict(n) for n in pipeline_spec_canonical.get("nodes", [])], "edges": list(pipeline_spec_canonical.get("edges", []))},
                             "meta": dict(meta), "kw": dict(kw)})
        if self._stop:
            raise StopAfterStart()

    def on_node_event(self, event):
        self.records.append({"record_type": "ser", "ser": event})

    def on_pipeline_end(self, run_id, summary):
        self.records.append({"record_type": "pipeline_end", "run_id": run_id, "summary": dict(summary)})

    def on_run_space_start(self, run_id, **kw):
        self.records.append({"record_type": "run_space_start", "run_id": run_id, "kw": dict(kw)})

    def on_run_space_end(self, run_id, **kw):
        self.records.append({"record_type": "run_space_end", "run_id": run_id, "kw": dict(kw)})

    def flush(self):
        self.flushed += 1

    def close(self):
        self.closed += 1
