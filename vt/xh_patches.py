"""Driver-level adaptations that let CrossHair 0.0.110 execute semantiva's real stack (DESIGN 2.1, P1-P5).

Everything here is a monkeypatch applied inside our own process; site-packages is not edited.
The module asserts the CrossHair version and the presence of every attribute it patches; a mismatch
raises HarnessError (exit status 2), never a verdict.
"""
from __future__ import annotations

import sys
import time

APPLIED = False


class HarnessError(RuntimeError):
    """The harness itself is broken (reserved exit status 2)."""


SOLVER_STATS = {"queries": 0, "seconds": 0.0, "unknown": 0}


def apply() -> None:
    global APPLIED
    if APPLIED:
        return
    import crosshair
    import z3

    if crosshair.__version__ != "0.0.110":
        raise HarnessError("crosshair-tool 0.0.110 expected, found %s" % crosshair.__version__)
    from crosshair import core as _core
    from crosshair import core_and_libs as _cal
    from crosshair import enforce

    _cal._make_registrations()  # must precede our own register_patch (it resets the patch table)
    _cal._make_registrations = lambda: None  # proxy_for_type calls it lazily; keep our patches
    from crosshair.core import register_patch
    from crosshair.libimpl import builtinslib as bl
    from crosshair.tracers import NoTracing

    for obj, attr in (
        (enforce.EnforcedConditions, "trace_call"),
        (bl, "_format"),
        (bl, "_str_percent_format"),
        (_core.ShortCircuitingContext, "make_interceptor"),
        (z3.Solver, "check"),
    ):
        if not hasattr(obj, attr):
            raise HarnessError("CrossHair internals changed: %r has no %s" % (obj, attr))

    # P1: a metaclass call (types.new_class) must not be routed through manual_constructor
    _orig_trace_call = enforce.EnforcedConditions.trace_call

    def _trace_call(self, frame, fn, binding_target):
        if isinstance(fn, type) and issubclass(fn, type):
            return None
        return _orig_trace_call(self, frame, fn, binding_target)

    enforce.EnforcedConditions.trace_call = _trace_call

    # P2: f"{obj}" must not deep-realise every symbolic reachable from a user object
    _orig_format = bl._format

    def _format(obj, format_spec=""):
        with NoTracing():
            symbolic = isinstance(obj, (bl.AnySymbolicStr, bl.SymbolicNumberAble)) or type(
                obj
            ).__module__.startswith("crosshair")
        if symbolic:
            return _orig_format(obj, format_spec)
        return format(obj, format_spec)

    bl._format = _format
    _core._PATCH_REGISTRATIONS[format] = _format

    # P2b: `fmt % obj` (collections.namedtuple.__repr__ uses it) deep-realises every symbolic reachable from `obj`;
    # realise only what is symbolic at the top level, user objects are rendered by their own __repr__/__str__
    _orig_percent = bl._str_percent_format

    def _str_percent_format(self, other):
        with NoTracing():
            items = other if isinstance(other, tuple) else (other,)
            direct = any(isinstance(x, (bl.AnySymbolicStr, bl.SymbolicNumberAble)) or type(x).__module__.startswith("crosshair") for x in items)
        if direct or not isinstance(self, str):
            return _orig_percent(self, other)
        return self.__mod__(other)

    bl._str_percent_format = _str_percent_format
    _core._PATCH_REGISTRATIONS[str.__mod__] = _str_percent_format

    # P3: never short-circuit bodies of contract-bearing callables
    _core.ShortCircuitingContext.make_interceptor = lambda self, original: original

    # solver accounting (evidence: queries discharged, solver seconds)
    _orig_check = z3.Solver.check

    def _check(self, *a, **k):
        t0 = time.perf_counter()
        r = _orig_check(self, *a, **k)
        SOLVER_STATS["queries"] += 1
        SOLVER_STATS["seconds"] += time.perf_counter() - t0
        if str(r) == "unknown":
            SOLVER_STATS["unknown"] += 1
        return r

    z3.Solver.check = _check
    APPLIED = True


def enable_realize_trace() -> None:
    """Debug aid: print the repo/harness frames at which a symbolic value gets realised."""
    from crosshair import statespace

    _fmv = statespace.StateSpace.find_model_value
    seen = set()

    def fmv(self, expr, *a, **k):
        fr = sys._getframe(1)
        st = []
        while fr is not None:
            fn = fr.f_code.co_filename
            if "/semantiva/" in fn or "/verif/vt" in fn:
                st.append("%s:%d:%s" % (fn.split("/")[-1], fr.f_lineno, fr.f_code.co_name))
            fr = fr.f_back
        key = tuple(st[:4])
        if key not in seen:
            seen.add(key)
            sys.stderr.write("REALIZE " + " | ".join(st[:8]) + "\n")
        return _fmv(self, expr, *a, **k)

    statespace.StateSpace.find_model_value = fmv
