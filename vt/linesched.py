"""Deterministic line-level scheduler for real threads (DESIGN 3.6 / C14).

Runs real threads over the unmodified transport module; `sys.settrace` line events restricted to the files
under test are the preemption points.  Every worker parks at each such line and proceeds only when the
controller grants it one step.  A worker parked on a `with <lock>:` line whose lock is currently held is not
enabled (it would block), so no timing heuristics are needed; a watchdog (20 s) turns an unexpected stall into a
HarnessStall (never into a verdict).

The controller's `choose` callback decides, at every step, which enabled thread runs next; in symbolic runs
that decision is taken from solver variables (vt/props/C14.py), in replays from the recorded schedule.
"""
from __future__ import annotations

import ast
import linecache
import sys
import threading
from typing import Any, Callable, Dict, List, Optional, Sequence


WATCHDOG_S = 20  # generous: the machine may be heavily loaded; a stall is never a verdict (the engine reports the path as unexplored)


class HarnessStall(RuntimeError):
    pass


# identifiers a statement may mention and still be thread-local (it then commutes with every step of every other
# thread, so it is merged into the neighbouring step instead of being a preemption point of its own)
LOCAL_SAFE = frozenset("data context metadata msg Message fut Future require_ack found None True False ack channel fnmatch self _pattern".split())


def local_lines(path: str) -> set:
    """Line numbers of simple statements of `path` that only mention LOCAL_SAFE identifiers (and no call of
    anything else, no yield): partial-order reduction by syntactic independence, recomputed from the source."""
    src = open(path).read()
    tree = ast.parse(src)
    out: set = set()
    for node in ast.walk(tree):
        if not isinstance(node, (ast.Assign, ast.AnnAssign, ast.Expr, ast.Return, ast.If, ast.Break, ast.Continue, ast.Pass)):
            continue
        # for compound statements only the header expression counts
        exprs = [node.test] if isinstance(node, ast.If) else [node]
        names = set()
        bad = False
        for e in exprs:
            for sub in ast.walk(e):
                if isinstance(sub, ast.Name):
                    names.add(sub.id)
                elif isinstance(sub, ast.Attribute):
                    names.add(sub.attr)
                elif isinstance(sub, (ast.Yield, ast.YieldFrom, ast.Await, ast.With, ast.For, ast.While)):
                    bad = True
        if bad or not names <= LOCAL_SAFE:
            continue
        last = getattr(node.test if isinstance(node, ast.If) else node, "end_lineno", node.lineno)
        for ln in range(node.lineno, last + 1):
            out.add(ln)
    return out


class _Worker:
    def __init__(self, tid: int, fn: Callable[[], Any]):
        self.tid = tid
        self.fn = fn
        self.go = threading.Semaphore(0)
        self.state = "new"  # new | parked | running | done
        self.frame = None
        self.line = 0
        self.error: Optional[BaseException] = None
        self.thread: Optional[threading.Thread] = None
        self.steps = 0
        self.inside_with: set = set()  # (frame id, line) of `with` statements this worker has entered and not left


class LineScheduler:
    def __init__(self, files: Sequence[str], reduce_local: bool = True):
        self.files = tuple(files)
        self.skip: Dict[str, set] = {}
        self.reduce_local = reduce_local
        self.workers: List[_Worker] = []
        self.arrived = threading.Condition()
        self.trace_log: List[Any] = []

    # ------------------------------------------------------------------ worker side
    def _park(self, w: _Worker, frame) -> None:
        with self.arrived:
            w.state = "parked"
            w.frame = frame
            w.line = frame.f_lineno
            self.arrived.notify_all()
        w.go.acquire()
        w.state = "running"

    def _tracer(self, w: _Worker):
        files = self.files

        def local(frame, event, arg):
            if event == "line":
                fn = frame.f_code.co_filename
                if self.reduce_local:
                    if fn not in self.skip:
                        self.skip[fn] = local_lines(fn)
                    if frame.f_lineno in self.skip[fn]:
                        return local
                self._park(w, frame)
            return local

        plain = tuple(f for f in files if "::" not in f)
        scoped = [tuple(f.split("::", 1)) for f in files if "::" in f]  # "path::function": only that function's lines

        def glob(frame, event, arg):
            if event != "call":
                return None
            fn = frame.f_code.co_filename
            if plain and fn.endswith(plain):
                return local
            for path, func in scoped:
                if fn.endswith(path) and frame.f_code.co_name == func:
                    return local
            return None

        return glob

    def _run(self, w: _Worker) -> None:
        sys.settrace(self._tracer(w))
        try:
            w.fn()
        except BaseException as e:  # noqa: BLE001
            w.error = e
        finally:
            sys.settrace(None)
            with self.arrived:
                w.state = "done"
                w.frame = None
                self.arrived.notify_all()

    # ------------------------------------------------------------------ controller side
    def add(self, fn: Callable[[], Any]) -> int:
        w = _Worker(len(self.workers), fn)
        self.workers.append(w)
        return w.tid

    def _wait_settled(self, w: _Worker) -> None:
        with self.arrived:
            ok = self.arrived.wait_for(lambda: w.state in ("parked", "done"), timeout=WATCHDOG_S)
        if not ok:
            raise HarnessStall("thread %d did not reach a preemption point within %d s (state %s)" % (w.tid, WATCHDOG_S, w.state))

    def _would_block(self, w: _Worker) -> bool:
        """Parked on a `with <expr>:` line whose lock is held by someone else?"""
        fr = w.frame
        if fr is None:
            return False
        src = linecache.getline(fr.f_code.co_filename, w.line).strip()
        if not src.startswith("with "):
            return False
        if (id(fr), w.line) in w.inside_with:
            return False  # CPython 3.12 reports the exit of a with-block as a line event on the `with` line: we hold the lock
        try:
            node = ast.parse(src + "\n    pass").body[0]
            expr = node.items[0].context_expr
            obj = eval(compile(ast.Expression(expr), "<with>", "eval"), fr.f_globals, fr.f_locals)
            locked = getattr(obj, "locked", None)
            return bool(locked()) if callable(locked) else False
        except Exception:  # noqa: BLE001
            return False

    def enabled(self) -> List[int]:
        return [w.tid for w in self.workers if w.state == "parked" and not self._would_block(w)]

    def start(self) -> None:
        for w in self.workers:
            w.thread = threading.Thread(target=self._run, args=(w,), daemon=True)
            w.thread.start()
            self._wait_settled(w)  # runs to its first line in the files under test (or finishes)

    def step(self, tid: int) -> None:
        w = self.workers[tid]
        if w.frame is not None:
            src = linecache.getline(w.frame.f_code.co_filename, w.line).strip()
            if src.startswith("with "):
                key = (id(w.frame), w.line)
                if key in w.inside_with:
                    w.inside_with.discard(key)  # this step executes the exit
                else:
                    w.inside_with.add(key)  # this step executes the entry
        w.steps += 1
        self.trace_log.append((tid, w.line))
        w.state = "running"
        w.go.release()
        self._wait_settled(w)

    def run(self, choose: Callable[[List[int], int], int], max_steps: int = 400) -> List[int]:
        """choose(enabled_tids, step_index) -> tid.  Returns the executed schedule (tid per step)."""
        self.start()
        sched: List[int] = []
        k = 0
        while True:
            en = self.enabled()
            if not en:
                if all(w.state == "done" for w in self.workers):
                    break
                raise HarnessStall("no enabled thread but not all done (deadlock?) states=%r" % [(w.state, w.line) for w in self.workers])
            if k >= max_steps:
                raise HarnessStall("step bound exceeded")
            t = choose(en, k)
            sched.append(t)
            self.step(t)
            k += 1
        for w in self.workers:
            if w.thread is not None:
                w.thread.join(timeout=2.0)
        return sched

    def abort(self) -> None:
        """Release every parked worker so that daemon threads can finish (after a failure)."""
        for w in self.workers:
            for _ in range(1000):
                if w.state == "done":
                    break
                w.go.release()
