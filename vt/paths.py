"""Where the code under test lives.  Registered checks always use /repo; VERIF_REPO lets the development
loop point the same checks at a scratch worktree of /repo (with a seeded change applied) without touching
/repo itself -- the `check` script then puts that directory first on PYTHONPATH."""
import os

REPO = os.environ.get("VERIF_REPO") or "/repo"
REPO = REPO.rstrip("/")
