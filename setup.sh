#!/bin/sh
# Offline bootstrap of the overlay venv used by every check:
#   /verif/.venv  =  python of /venv  +  .pth(/venv site-packages, /repo)  +  crosshair-tool, z3-solver, cvc5
# Nothing is fetched from a package index (wheelhouse only); /venv and /repo are left untouched.
set -e
cd "$(dirname "$0")"
V=.venv
WH=/opt/veriftools/wheels
if [ -x "$V/bin/python" ] && "$V/bin/python" -c "import crosshair, z3, semantiva, jsonschema, yaml" 2>/dev/null; then
    echo "setup: overlay venv already usable"
    exit 0
fi
rm -rf "$V"
/venv/bin/python -m venv "$V"
SP=$("$V/bin/python" -c "import sysconfig; print(sysconfig.get_paths()['purelib'])")
printf '%s\n%s\n' "/venv/lib/python3.12/site-packages" "/repo" > "$SP/_overlay.pth"
PIP_NO_INDEX=1 "$V/bin/python" -m pip install -q --no-index --find-links "$WH" crosshair-tool z3-solver cvc5
"$V/bin/python" -c "import crosshair, z3, semantiva, jsonschema, yaml; print('setup: ok', crosshair.__version__, z3.get_version_string(), semantiva.__file__)"
