from typing import Dict
import semantiva.metadata.semantic_id as sid

class _Tok(str):
    pass
def _freeze(o):
    if isinstance(o, dict):
        return ("D",) + tuple(sorted(((k, _freeze(v)) for k, v in o.items()), key=lambda kv: kv[0]))
    if isinstance(o, (list, tuple)):
        return ("L",) + tuple(_freeze(v) for v in o)
    return o
class _FakeJson:
    @staticmethod
    def dumps(obj, **kw):
        return _Box(_freeze(obj))
class _Box:
    def __init__(self, v): self.v = v
    def encode(self, *_): return self
    def __format__(self, spec): return self  # keeps structure inside f-strings? (probe)
class _FakeHash:
    def __init__(self, data=None): self.d = data
    def hexdigest(self): return self.d
class _FakeHashlib:
    @staticmethod
    def sha256(data=None): return _FakeHash(data)

def node_sem_preimage(meta):
    # model: identical to compute_node_semantic_id up to the hashing step
    payload = sid._strip_ui_only(meta)
    def _canonicalize(obj):
        if isinstance(obj, dict):
            return {k: _canonicalize(v) for k, v in obj.items() if k != "expr"}
        if isinstance(obj, list):
            return [_canonicalize(v) for v in obj]
        return obj
    return _freeze(_canonicalize(payload))

def discriminates(vars1: Dict[str, int], name: str, v1: int, v2: int) -> bool:
    """
    pre: len(vars1) <= 1 and len(name) <= 6 and v1 != v2
    post: _
    """
    m1 = dict(vars1); m1[name] = v1
    m2 = dict(vars1); m2[name] = v2
    a = node_sem_preimage({"type": "derive.parameter_sweep", "variables": m1})
    b = node_sem_preimage({"type": "derive.parameter_sweep", "variables": m2})
    return a != b
