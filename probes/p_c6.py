import io, json
from hstubs import *
from hstubs import _Op
from semantiva.pipeline import Pipeline, Payload
from semantiva.context_processors import ContextType
from semantiva.trace.drivers.jsonl import JsonlTraceDriver

class MemDriver(JsonlTraceDriver):
    def __init__(self, detail):
        super().__init__("/nonexistent/t.ser.jsonl", detail)
        self.buf = io.StringIO(); self.flushed = 0; self.closed = 0
    def _open_file(self, run_id):
        if self._file is None: self._file = self.buf
    def flush(self):
        self.flushed += 1
    def close(self):
        self.closed += 1; self._file = None

class Boom(Exception): pass
STATE = {"k": 0, "fail_at": -1}
class OpMaybeBoom(_Op):
    """may fail"""
    def _process_logic(self, data):
        i = STATE["k"]; STATE["k"] += 1
        if i == STATE["fail_at"]:
            raise Boom("x")
        return IntData(data.data + 1)

def body(fail_at, n, detail_all):
    STATE["k"] = 0; STATE["fail_at"] = fail_at
    drv = MemDriver("all" if detail_all else "hash")
    nodes = [{"processor": OpMaybeBoom} for _ in range(n)]
    raised = None
    try:
        Pipeline(nodes, logger=LOG, trace=drv).process(Payload(IntData(1), ContextType({})))
    except Boom as e:
        raised = e
    import sys; sys.stderr.write("BUF %r %r\n" % (type(drv.buf).__name__, drv.buf.getvalue()[:80]))
    recs = [json.loads(l) for l in drv.buf.getvalue().splitlines()]
    kinds = [r["record_type"] for r in recs]
    failing = 0 <= fail_at < n
    nser = (fail_at + 1) if failing else n
    ok = kinds == ["pipeline_start"] + ["ser"] * nser + ["pipeline_end"]
    ok = ok and (raised is not None) == failing
    ok = ok and recs[-1]["summary"]["status"] == ("error" if failing else "ok")
    sers = recs[1:-1]
    ok = ok and all(s["status"] == "succeeded" for s in sers[:-1]) and (not sers or sers[-1]["status"] == ("error" if failing else "succeeded"))
    ok = ok and drv.closed >= 1 and drv.flushed >= 1
    return ok

def check(fail_at: int, n: int, detail_all: bool) -> bool:
    """
    pre: 1 <= n <= 3 and -1 <= fail_at <= n
    post: _
    """
    return body(fail_at, n, detail_all)
