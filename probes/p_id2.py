import itertools, warnings
warnings.filterwarnings("ignore")
import ihash
import semantiva.pipeline.graph_builder as gb
import semantiva.metadata.semantic_id as sid
import semantiva.inspection.builder as ib
import semantiva.pipeline.payload_processors as pp
gb.json = ihash.FakeJson; gb.hashlib = ihash.FakeHashlib; gb.uuid = ihash.FakeUUID
sid.json = ihash.FakeJson; sid.hashlib = ihash.FakeHashlib
ib.json = ihash.FakeJson; ib.hashlib = ihash.FakeHashlib
import semantiva.pipeline.nodes.nodes as _nn
for c in (_nn._DataNode, _nn._ProbeContextInjectorNode, _nn._ContextProcessorNode): c.__str__ = lambda self: "node"
from semantiva.examples.test_utils import FloatAddOperation, FloatMultiplyOperation

def ids(cfg):
    p = ib.build_inspection_payload(cfg)
    return ihash.expand(p["identity"]["semantic_id"]), ihash.expand(p["identity"]["config_id"])

def discriminates_param(v1: int, v2: int, k: int) -> bool:
    """
    C05: two configs differing in one parameter value get different semantic and config ids.
    pre: v1 != v2
    post: _
    """
    a = ids([{"processor": FloatAddOperation, "parameters": {"addend": v1}}, {"processor": FloatMultiplyOperation, "parameters": {"factor": k}}])
    b = ids([{"processor": FloatAddOperation, "parameters": {"addend": v2}}, {"processor": FloatMultiplyOperation, "parameters": {"factor": k}}])
    return a[0] != b[0] and a[1] != b[1]

def key_order_invariant(v1: int, v2: int, flip: bool) -> bool:
    """
    C04: mapping key order does not matter.
    post: _
    """
    p1 = {"addend": v1, "zz": {"a": v2, "b": v1}}
    p2 = {"zz": {"b": v1, "a": v2}, "addend": v1} if flip else p1
    a = ids([{"processor": FloatAddOperation, "parameters": p1}])
    b = ids([{"processor": FloatAddOperation, "parameters": p2}])
    return a == b
