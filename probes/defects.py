import warnings; warnings.filterwarnings("ignore")
from semantiva.inspection.builder import build_inspection_payload, build_pipeline_inspection
from semantiva.inspection.validator import validate_pipeline
from semantiva.registry import RegistryProfile, apply_profile
apply_profile(RegistryProfile())
import semantiva.examples.test_utils as tu
from semantiva.registry.processor_registry import ProcessorRegistry
ProcessorRegistry.register_modules(["semantiva.examples.test_utils"])

def sweep(vars_, params, proc="FloatValueDataSource", **kw):
    d = {"parameter_sweep": {"parameters": params, "variables": vars_, "collection": "FloatDataCollection"}}
    d["parameter_sweep"].update(kw)
    return [{"processor": proc, "derive": d}]

def ids(cfg):
    p = build_inspection_payload(cfg)
    return p["identity"]["semantic_id"][:16], p["identity"]["config_id"][:16], [ (n["uuid"][:8], n["node_semantic_id"][:8]) for n in p["pipeline_spec_canonical"]["nodes"]]

print("--- C05: variable named 'expr', domain changed")
a = ids(sweep({"expr": {"values": [1.0, 2.0]}}, {"value": "float(expr)"}))
b = ids(sweep({"expr": {"values": [1.0, 3.0]}}, {"value": "float(expr)"}))
print(a); print(b); print("COLLIDE" if a == b else "distinct")
print("--- C05: ordinary variable, domain changed (semantic_id sensitivity)")
a = ids(sweep({"t": {"values": [1.0, 2.0]}}, {"value": "float(t)"}))
b = ids(sweep({"t": {"values": [1.0, 3.0]}}, {"value": "float(t)"}))
print(a); print(b)
print("--- C05: wrapped processor changed")
a = ids(sweep({"t": {"values": [1.0, 2.0]}}, {"value": "float(t)"}, proc="FloatValueDataSource"))
b = ids(sweep({"t": {"values": [1.0, 2.0]}}, {"value": "float(t)"}, proc="FloatValueDataSourceWithDefault"))
print(a); print(b)
print("--- C04: key order of from_context variables")
a = ids(sweep({"a": {"from_context": "ka"}, "b": {"from_context": "kb"}}, {"value": "float(a+b)"}, mode="by_position"))
b = ids(sweep({"b": {"from_context": "kb"}, "a": {"from_context": "ka"}}, {"value": "float(a+b)"}, mode="by_position"))
print(a); print(b); print("ORDER-DEPENDENT" if a != b else "same")
