from semantiva.trace.aggregation.aggregator import TraceAggregator
NODES = ["n1", "n2", "n3"]
SPEC = {"nodes": [{"node_uuid": n} for n in NODES]}

def mk(kind, run, node, st, ts, launch):
    if kind == 0:
        rec = {"record_type": "pipeline_start", "run_id": run, "pipeline_id": "p", "pipeline_spec_canonical": SPEC, "timestamp": ts}
        if launch: rec.update(run_space_launch_id="L", run_space_attempt=1)
        return rec
    if kind == 1:
        return {"record_type": "pipeline_end", "run_id": run, "timestamp": ts}
    if kind == 2:
        return {"record_type": "ser", "identity": {"run_id": run, "node_id": node}, "status": st,
                "timing": {"started_at": ts, "finished_at": ts}}
    if kind == 3:
        return {"record_type": "run_space_start", "run_space_launch_id": "L", "run_space_attempt": 1, "run_space_planned_run_count": 2}
    return {"record_type": "run_space_end", "run_space_launch_id": "L", "run_space_attempt": 1}

def verdict(recs):
    agg = TraceAggregator()
    agg.ingest_many(recs)
    runs, launches = agg.finalize_all()
    key = lambda c: (c.run_id, c.status, tuple(c.problems), tuple(c.missing_nodes), tuple(c.orphan_nodes), tuple(c.nonterminal_nodes), c.summary["nodes_observed"], c.summary["has_start"], c.summary["has_end"])
    return sorted(key(c) for c in runs), sorted((l.status, tuple(l.problems), l.summary["runs_total"], tuple(sorted(l.summary["runs_by_status"].items()))) for l in launches)

def ident(k, r, n):
    return (k, r, n if k == 2 else "") if k < 3 else (k, "", "")

def body(k1, r1, n1, s1, t1, l1, k2, r2, n2, s2, t2, l2):
    if ident(k1, r1, n1) == ident(k2, r2, n2):
        return True
    A, B = mk(k1, r1, n1, s1, t1, l1), mk(k2, r2, n2, s2, t2, l2)
    return verdict([A, B]) == verdict([B, A])

def commute(k1: int, r1: str, n1: str, s1: str, t1: str, l1: bool, k2: int, r2: str, n2: str, s2: str, t2: str, l2: bool) -> bool:
    """
    pre: 0 <= k1 <= 4 and 0 <= k2 <= 4
    pre: r1 in ("r1", "r2") and r2 in ("r1", "r2") and n1 in ("n1", "n2", "x") and n2 in ("n1", "n2", "x")
    pre: s1 in ("succeeded", "error", "running") and s2 in ("succeeded", "error", "running")
    pre: len(t1) == 2 and len(t2) == 2
    post: _
    """
    return body(k1, r1, n1, s1, t1, l1, k2, r2, n2, s2, t2, l2)
