import warnings, json, io, os, tempfile, gc; warnings.filterwarnings("ignore")
from semantiva.registry import RegistryProfile, apply_profile
apply_profile(RegistryProfile())
from semantiva.registry.processor_registry import ProcessorRegistry
ProcessorRegistry.register_modules(["semantiva.examples.test_utils"])
from semantiva.examples.test_utils import *
from semantiva.pipeline import Pipeline, Payload
from semantiva.context_processors import ContextType
from semantiva.inspection.builder import build_pipeline_inspection, build_inspection_payload
from semantiva.inspection.validator import validate_pipeline
from semantiva.trace.drivers.jsonl import JsonlTraceDriver
from semantiva.logger import Logger
L = Logger(level="CRITICAL")

print("--- C02 use-before-create")
nodes = [{"processor": FloatAddOperation}, {"processor": FloatCollectValueProbe, "context_key": "addend"}]
insp = build_pipeline_inspection(nodes); validate_pipeline(insp)
print("required:", insp.required_context_keys)
try:
    Pipeline(nodes, logger=L).process(Payload(FloatDataType(1.0), ContextType({})))
    print("ran ok")
except Exception as e: print("RUN FAILED:", type(e).__name__, e)

print("--- C11 keyword escape")
from semantiva.utils.safe_eval import ExpressionEvaluator
try:
    f = ExpressionEvaluator().compile("max(a, 1, key=lambda q: __import__('os').getcwd() and 0)", {"a"})
    print("ACCEPTED; eval ->", f(a=3))
except Exception as e: print("rejected", e)

print("--- C06 construction failure after pipeline_start")
d = tempfile.mkdtemp(); path = os.path.join(d, "t.ser.jsonl")
nodes = [{"processor": FloatAddOperation, "parameters": {"addend": 1.0}}, {"processor": FloatCollectValueProbe}]
drv = JsonlTraceDriver(path)
try:
    Pipeline(nodes, logger=L, trace=drv).process(Payload(FloatDataType(1.0), ContextType({})))
except Exception as e: print("raised", type(e).__name__)
print("file closed?", drv._file is None, "| records:", [json.loads(l)["record_type"] for l in open(path)])

print("--- C07 default overridden by context: sources")
path2 = os.path.join(d, "t2.ser.jsonl")
nodes = [{"processor": FloatMultiplyOperationWithDefault}]
r = Pipeline(nodes, logger=L, trace=JsonlTraceDriver(path2)).process(Payload(FloatDataType(1.0), ContextType({"factor": 5.0})))
ser = [json.loads(l) for l in open(path2) if '"ser"' in l][0]
print("result", r.data.data, "| SER params", ser["processor"]["parameters"], ser["processor"]["parameter_sources"])
print("timestamps", ser["timing"]["started_at"])

print("--- C04 pipeline_id history (same Pipeline object twice, sweep node)")
cfg = [{"processor": "FloatValueDataSource", "derive": {"parameter_sweep": {"parameters": {"value": "float(t)"}, "variables": {"t": {"values": [1.0, 2.0]}}, "collection": "FloatDataCollection"}}}]
p3 = os.path.join(d, "t3.ser.jsonl")
class Drv(JsonlTraceDriver):
    def close(self): pass
pl = Pipeline(cfg, logger=L, trace=JsonlTraceDriver(p3))
pl.process(Payload(None, ContextType({}))); pl.process(Payload(None, ContextType({})))
print([json.loads(l)["pipeline_id"][:14] for l in open(p3) if "pipeline_start" in l])

print("--- C18 registry growth")
from semantiva.core.semantiva_component import get_component_registry
size = lambda: sum(len(v) for v in get_component_registry().values())
nodes = [{"processor": FloatAddOperation, "parameters": {"addend": 1.0}}, {"processor": "rename:a:b"}]
pl = Pipeline(nodes, logger=L)
pl.process(Payload(FloatDataType(1.0), ContextType({"a": 1})))
s0 = size()
for _ in range(20): pl.process(Payload(FloatDataType(1.0), ContextType({"a": 1})))
print("registry growth over 20 runs:", size() - s0)
