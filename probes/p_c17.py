import argparse, io, contextlib
from hstubs import *
from hstubs import _Op
import semantiva.cli as cli
from semantiva.registry.processor_registry import ProcessorRegistry
import hstubs
ProcessorRegistry.register_modules(["hstubs", "p_c17"])

EXEC = {"n": 0}
class OpCount(_Op):
    """counts executions"""
    def _process_logic(self, data, addend: int):
        EXEC["n"] += 1
        return IntData(data.data + addend)
class SrcOne(DataSource):
    """source"""
    @classmethod
    def _get_data(cls): return IntData(1)
    @classmethod
    def output_data_type(cls): return IntData

def ns(**kw):
    d = dict(pipeline="x.yaml", dry_run=False, validate=False, overrides=[], contexts=[], verbose=False, quiet=True,
             exec_orchestrator=None, exec_executor=None, exec_transport=None, exec_options=[], trace_driver=None,
             trace_output=None, trace_options=[], run_space_file=None, run_space_max_runs=None, run_space_dry_run=False,
             run_space_launch_id=None, run_space_idempotency_key=None, run_space_attempt=None)
    d.update(kw); return argparse.Namespace(**d)

def body(validate, dry, rs_dry, give_key, nvals, max_runs):
    EXEC["n"] = 0
    cfg = {"pipeline": {"nodes": [{"processor": SrcOne}, {"processor": OpCount}]},
           "run_space": {"max_runs": max_runs, "blocks": [{"mode": "by_position", "context": {"z": list(range(nvals))}}]}}
    cli._load_yaml = lambda path: cfg
    err = io.StringIO(); out = io.StringIO()
    with contextlib.redirect_stderr(err), contextlib.redirect_stdout(out):
        code = cli._run(ns(validate=validate, dry_run=dry, run_space_dry_run=rs_dry, contexts=(["addend=5"] if give_key else [])))
    no_exec = validate or dry or rs_dry or (not give_key) or nvals > max_runs
    if validate: want = 0
    elif nvals > max_runs: want = 3
    elif not give_key: want = 3
    else: want = 0
    return code == want and (EXEC["n"] == 0 if no_exec else EXEC["n"] == nvals)

def check(validate: bool, dry: bool, rs_dry: bool, give_key: bool, nvals: int, max_runs: int) -> bool:
    """
    pre: 0 <= nvals <= 3 and 0 <= max_runs <= 4
    post: _
    """
    return body(validate, dry, rs_dry, give_key, nvals, max_runs)
