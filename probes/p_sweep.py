from typing import Dict, List
from semantiva.data_processors.parametric_sweep_factory import _iterate_sweep

def ref_by_position(seqs: Dict[str, List[int]], broadcast: bool):
    lens = [len(s) for s in seqs.values()]
    if not seqs:
        return []
    if broadcast:
        n = max(lens)
    else:
        if len(set(lens)) != 1:
            return None
        n = lens[0]
    return [{k: s[i % len(s)] for k, s in seqs.items()} for i in range(n)]

def check_by_position(a: List[int], b: List[int], broadcast: bool) -> bool:
    """
    pre: 1 <= len(a) <= 3 and 1 <= len(b) <= 3
    post: _
    """
    seqs = {"x": a, "y": b}
    exp = ref_by_position(seqs, broadcast)
    try:
        got = list(_iterate_sweep(seqs, mode="by_position", broadcast=broadcast))
    except ValueError:
        return exp is None
    return got == exp

def check_comb(a: List[int], b: List[int], c: List[int], k: int) -> bool:
    """
    pre: 1 <= len(a) <= 3 and 1 <= len(b) <= 3 and 1 <= len(c) <= 2
    pre: 0 <= k < len(a)*len(b)*len(c)
    post: _
    """
    seqs = {"y": b, "z": c, "x": a}
    got = list(_iterate_sweep(seqs, mode="combinatorial", broadcast=False))
    if len(got) != len(a)*len(b)*len(c):
        return False
    iz = k % len(c); iy = (k // len(c)) % len(b); ix = k // (len(c)*len(b))
    return got[k] == {"x": a[ix], "y": b[iy], "z": c[iz]}
