"""Hand-written instance of the micro-op encoding the C14 translator is meant to emit (publish only, 2 publishers, new channel)."""
import time, z3
T = [1, 2]; K = 12; NONE = 0; FREE = 0
def run(fixed_alloc_atomic_with_lookup=False):
    s = z3.Solver()
    sched = [z3.Int(f"sched{k}") for k in range(K)]
    # state at step k
    pc   = {t: [z3.Int(f"pc{t}_{k}") for k in range(K + 1)] for t in T}
    reg  = {t: [z3.Int(f"reg{t}_{k}") for k in range(K + 1)] for t in T}        # pair held by thread
    Q    = [z3.Int(f"Q_{k}") for k in range(K + 1)]                             # pair stored for channel c
    own  = {p: [z3.Int(f"own{p}_{k}") for k in range(K + 1)] for p in T}        # lock owner of pair p
    has  = {(p, m): [z3.Bool(f"has{p}_{m}_{k}") for k in range(K + 1)] for p in T for m in T}  # msg m in deque of pair p
    for t in T: s.add(pc[t][0] == 0, reg[t][0] == NONE)
    s.add(Q[0] == NONE)
    for p in T:
        s.add(own[p][0] == FREE)
        for m in T: s.add(z3.Not(has[(p, m)][0]))
    for k in range(K):
        s.add(z3.Or([sched[k] == t for t in T]))
        for t in T:
            me = sched[k] == t; o = 3 - t
            cur, r = pc[t][k], reg[t][k]
            # frame: the other thread keeps pc/reg
            s.add(z3.Implies(me, z3.And(pc[o][k + 1] == pc[o][k], reg[o][k + 1] == reg[o][k])))
            lock_free = z3.Or([z3.And(r == p, own[p][k] == FREE) for p in T])
            enabled = z3.And(cur < 5, z3.Or(cur != 2, lock_free))
            s.add(z3.Implies(me, enabled))                     # scheduler only picks enabled threads
            hit = Q[k] != NONE
            if fixed_alloc_atomic_with_lookup:                 # model of a repaired publish: lookup-or-create is one atomic step
                n_pc = z3.If(cur == 0, 2, cur + 1)
                n_reg = z3.If(cur == 0, z3.If(hit, Q[k], t), r)
                n_Q = z3.If(z3.And(cur == 0, z3.Not(hit)), t, Q[k])
            else:
                n_pc = z3.If(cur == 0, z3.If(hit, 2, 1), cur + 1)
                n_reg = z3.If(cur == 0, z3.If(hit, Q[k], r), z3.If(cur == 1, t, r))   # pc1: ALLOC_STORE uses fresh pair id = t
                n_Q = z3.If(cur == 1, t, Q[k])
            s.add(z3.Implies(me, z3.And(pc[t][k + 1] == n_pc, reg[t][k + 1] == n_reg, Q[k + 1] == n_Q)))
            for p in T:
                s.add(z3.Implies(me, own[p][k + 1] == z3.If(z3.And(cur == 2, r == p), t, z3.If(z3.And(cur == 4, r == p), FREE, own[p][k]))))
                for m in T:
                    s.add(z3.Implies(me, has[(p, m)][k + 1] == z3.Or(has[(p, m)][k], z3.And(cur == 3, r == p, m == t))))
        # when all threads ended: stutter not needed, K chosen so both can finish; allow idle by requiring termination only at the end
    s.add(z3.And([pc[t][K] == 5 for t in T]) if False else z3.BoolVal(True))
    # run to completion within K: require both ended at some step; simplest: K == total steps (5 or 6 each) -> use exact lengths via disjunction
    done = z3.And([pc[t][K] == 5 for t in T])
    delivered = lambda m: z3.Or([z3.And(Q[K] == p, has[(p, m)][K]) for p in T])
    return s, sched, done, delivered

for fixed in (False, True):
    # total steps differ per path (hit skips pc1): try K in 10..12 by padding is awkward; instead allow K=12 with 'done' threads un-schedulable -> need idle; use per-K solve
    best = None; t0 = time.time()
    for K in (10, 11, 12):
        globals()["K"] = K
        s, sched, done, delivered = run(fixed)
        s.add(done, z3.Not(z3.And(delivered(1), delivered(2))))
        r = s.check()
        if r == z3.sat:
            m = s.model(); best = [m.eval(x).as_long() for x in sched]; break
    print("fixed" if fixed else "current", "->", ("LOST message, schedule %s" % best) if best else "no loss for K in 10..12", "%.2fs" % (time.time() - t0))
