"""Shared probe stubs (prototype of vt/stubs.py + lib_components.py)."""
import itertools
from semantiva.data_types import BaseDataType, DataCollectionType
from semantiva.data_processors import DataOperation, DataProbe
from semantiva.data_io import DataSource
from semantiva.logger import Logger
import semantiva.pipeline.graph_builder as gb
import semantiva.pipeline.payload_processors as pp
import semantiva.execution.orchestrator.orchestrator as orch
import semantiva.trace.delta_collector as dc
import semantiva.pipeline.nodes.nodes as _nn
class _FakeTime:
    def time(self): return 0.0
    def process_time(self): return 0.0
pp.time = _FakeTime(); orch.time = _FakeTime()
_ctr = itertools.count()
class _FakeJson:
    @staticmethod
    def dumps(obj, **kw): return "canon-%d" % next(_ctr)
gb.json = _FakeJson()
orch.serialize_json_safe = lambda o: o
dc._stable_equal = lambda a, b: a is b or a == b
for c in (_nn._DataNode, _nn._ProbeContextInjectorNode, _nn._ContextProcessorNode): c.__str__ = lambda self: "node"
LOG = Logger(level="CRITICAL")
class IntData(BaseDataType[int]):
    """int payload"""
class IntColl(DataCollectionType[IntData, list]):
    """int collection"""
    @classmethod
    def _initialize_empty(cls): return []
    def __iter__(self): return iter(self._data)
    def append(self, item): self._data.append(item)
    def __len__(self): return len(self._data)
class SrcV(DataSource):
    """source"""
    @classmethod
    def _get_data(cls, value: int, offset: int = 5): return IntData(value + offset)
    @classmethod
    def output_data_type(cls): return IntData
class _Op(DataOperation):
    @classmethod
    def input_data_type(cls): return IntData
    @classmethod
    def output_data_type(cls): return IntData
class OpAdd(_Op):
    """add"""
    def _process_logic(self, data, addend: int, bias: int = 1): return IntData(data.data + addend + bias)
class PrVal(DataProbe):
    """probe"""
    @classmethod
    def input_data_type(cls): return IntData
    def _process_logic(self, data, offset: int = 0): return data.data + offset
import semantiva.metadata.semantic_id as _sid
import semantiva.core.semantiva_component as _sc
_sid._sha256_json = lambda obj: "digest"
_sc._SemantivaComponent.semantic_id = classmethod(lambda cls: cls.__name__)
import platform as _pl
_pl.platform(); _pl.python_version(); _pl.python_implementation()   # warm caches outside the tracer
import semantiva.trace._utils as _tu
_PINS = _tu.collect_env_pins()
orch._collect_env_pins_util = lambda: dict(_PINS)                      # environment stub: constant pins
import datetime as _dt
import semantiva.trace.drivers.jsonl as _jl
class _FakeDateTime:
    _fixed = _dt.datetime(2026, 1, 2, 3, 4, 5, 678000)
    @classmethod
    def now(cls, tz=None): return cls._fixed
orch.datetime = _FakeDateTime; _jl.datetime = _FakeDateTime
