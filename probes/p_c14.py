import sys, threading
from semantiva.execution.transport.in_memory import InMemorySemantivaTransport
import semantiva.execution.transport.in_memory as mod
from semantiva.context_processors import ContextType
FILE = mod.__file__

class Sched:
    """Line-granularity controlled scheduler: each worker blocks before every line of in_memory.py until granted."""
    def __init__(self): self.gate = {}; self.at = {}; self.done = set(); self.cv = threading.Condition()
    def tracer(self, name):
        def local(frame, event, arg):
            if event == "line" and frame.f_code.co_filename == FILE:
                with self.cv:
                    self.at[name] = (frame.f_code.co_name, frame.f_lineno); self.gate[name] = False; self.cv.notify_all()
                    self.cv.wait_for(lambda: self.gate[name])
            return local
        def glob(frame, event, arg):
            return local if frame.f_code.co_filename == FILE else None
        return glob
    def spawn(self, name, fn):
        def run():
            sys.settrace(self.tracer(name))
            try: fn()
            finally:
                sys.settrace(None)
                with self.cv: self.done.add(name); self.cv.notify_all()
        t = threading.Thread(target=run, daemon=True); self.gate[name] = False; t.start()
        with self.cv: self.cv.wait_for(lambda: name in self.at or name in self.done)
    def step(self, name):
        if name in self.done: return False
        with self.cv:
            before = self.at.get(name); self.at.pop(name, None); self.gate[name] = True; self.cv.notify_all()
            self.cv.wait_for(lambda: name in self.at or name in self.done)
        return True

def run(schedule):
    tr = InMemorySemantivaTransport(); s = Sched()
    s.spawn("P1", lambda: tr.publish("c", "m1", ContextType()))
    s.spawn("P2", lambda: tr.publish("c", "m2", ContextType()))
    trace = []
    for who in schedule:
        trace.append((who, s.at.get(who)))
        s.step(who)
    for who in ("P1", "P2"):
        while s.step(who): pass
    return sorted(m.data for m in tr.subscribe("*")), trace

print("sequential:", run(["P1"] * 20)[0])
# P1 takes 2 steps (enters publish line, then the lambda line = inside __missing__), then P2 runs fully, then P1 resumes
got, trace = run(["P1"] + ["P2"] * 20)
print("racy      :", got); print(trace[:4])
