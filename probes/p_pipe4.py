import itertools
from semantiva.pipeline import Pipeline, Payload
from semantiva.context_processors import ContextType
from semantiva.data_types import BaseDataType
from semantiva.data_processors import DataOperation, DataProbe
from semantiva.logger import Logger
import semantiva.pipeline.graph_builder as gb
import semantiva.pipeline.payload_processors as pp
import semantiva.execution.orchestrator.orchestrator as orch
import semantiva.trace.delta_collector as dc

class _FakeTime:
    def time(self): return 0.0
    def process_time(self): return 0.0
pp.time = _FakeTime(); orch.time = _FakeTime()
_ctr = itertools.count()
class _FakeJson:
    @staticmethod
    def dumps(obj, **kw): return "canon-%d" % next(_ctr)
gb.json = _FakeJson()
orch.serialize_json_safe = lambda o: o
dc._stable_equal = lambda a, b: a is b
_LOG = Logger(level="ERROR")
import semantiva.pipeline.nodes.nodes as _nn
_nn._DataNode.__str__ = lambda self: "node"
_nn._ProbeContextInjectorNode.__str__ = lambda self: "node"
_nn._ContextProcessorNode.__str__ = lambda self: "node"

class IntData(BaseDataType[int]):
    """int payload"""
class _Op(DataOperation):
    @classmethod
    def input_data_type(cls): return IntData
    @classmethod
    def output_data_type(cls): return IntData
class OpAdd(_Op):
    """add"""
    def _process_logic(self, data, addend: int): return IntData(data.data + addend)
class OpAddDef(_Op):
    """add default"""
    def _process_logic(self, data, addend: int = 7): return IntData(data.data + addend)
class OpScale(_Op):
    """scale"""
    def _process_logic(self, data, factor: int = 3): return IntData(data.data * 3 + factor)
class ProbeVal(DataProbe):
    """probe"""
    @classmethod
    def input_data_type(cls): return IntData
    def _process_logic(self, data): return data.data

def run(x, a_cfg, a_ctx, f_ctx, add_in_cfg, f_in_ctx, a_in_ctx, probe_key_is_factor):
    nodes = [
        {"processor": OpAdd, "parameters": ({"addend": a_cfg} if add_in_cfg else {})},
        {"processor": ProbeVal, "context_key": ("factor" if probe_key_is_factor else "out")},
        {"processor": OpScale},
        {"processor": OpAddDef},
    ]
    ctx = {}
    if a_in_ctx: ctx["addend"] = a_ctx
    if f_in_ctx: ctx["factor"] = f_ctx
    p = Pipeline(nodes, logger=_LOG)
    res = p.process(Payload(IntData(x), ContextType(ctx)))
    return res.data.data, res.context.to_dict()

def body(x, a_cfg, a_ctx, f_ctx, add_in_cfg, f_in_ctx, a_in_ctx, pk):
    try:
        d, c = run(x, a_cfg, a_ctx, f_ctx, add_in_cfg, f_in_ctx, a_in_ctx, pk)
    except KeyError:
        return (not add_in_cfg) and (not a_in_ctx)
    if (not add_in_cfg) and (not a_in_ctx): return False
    addend = a_cfg if add_in_cfg else a_ctx
    v1 = x + addend
    ctx = {}
    if a_in_ctx: ctx["addend"] = a_ctx
    if f_in_ctx: ctx["factor"] = f_ctx
    ctx["factor" if pk else "out"] = v1
    v2 = v1 * 3 + ctx.get("factor", 3)
    v3 = v2 + ctx.get("addend", 7)
    return d == v3 and c == ctx

def check(x: int, a_cfg: int, a_ctx: int, f_ctx: int, add_in_cfg: bool, f_in_ctx: bool, a_in_ctx: bool, pk: bool) -> bool:
    """
    post: _
    """
    return body(x, a_cfg, a_ctx, f_ctx, add_in_cfg, f_in_ctx, a_in_ctx, pk)
