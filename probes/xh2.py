"""CrossHair driver with patches (metaclass construction, lazy formatting)."""
import sys
from crosshair import enforce, statespace
from crosshair.libimpl import builtinslib as bl
from crosshair.tracers import NoTracing, ResumedTracing
from crosshair.core import register_patch
_orig = enforce.EnforcedConditions.trace_call
def _trace_call(self, frame, fn, binding_target):
    if isinstance(fn, type) and issubclass(fn, type):
        return None
    return _orig(self, frame, fn, binding_target)
enforce.EnforcedConditions.trace_call = _trace_call

_orig_format = bl._format
def _format(obj, format_spec=""):
    with NoTracing():
        symbolic = isinstance(obj, (bl.AnySymbolicStr, bl.SymbolicNumberAble)) or type(obj).__module__.startswith("crosshair")
    if symbolic:
        return _orig_format(obj, format_spec)
    return format(obj, format_spec)   # user objects: run their own __format__/__str__ traced
register_patch(format, _format)
from crosshair import core as _core
_core.ShortCircuitingContext.make_interceptor = lambda self, original: original   # P5: never skip bodies
bl._format = _format

if "--trace-realize" in sys.argv:
    sys.argv.remove("--trace-realize")
    _fmv = statespace.StateSpace.find_model_value
    _seen = set()
    def fmv(self, expr, *a, **k):
        fr = sys._getframe(1); st = []
        while fr is not None:
            fn = fr.f_code.co_filename
            if "/repo/" in fn or "probe" in fn or "harness" in fn:
                st.append("%s:%d:%s" % (fn.split("/")[-1], fr.f_lineno, fr.f_code.co_name))
            fr = fr.f_back
        key = tuple(st[:4])
        if key not in _seen:
            _seen.add(key); sys.stderr.write("REALIZE " + " | ".join(st[:6]) + "\n")
        return _fmv(self, expr, *a, **k)
    statespace.StateSpace.find_model_value = fmv
from crosshair.main import main
main(sys.argv[1:])
