from p_pipe4 import *
import semantiva.pipeline.nodes.nodes as N
from semantiva.pipeline._param_resolution import _default_for, _NO_DEFAULT
def bad_resolve(*, name, processor_cls, processor_config, context):
    if name in context.keys():            # MUTANT: context wins over config
        return context.get_value(name)
    if name in processor_config:
        return processor_config[name]
    d = _default_for(processor_cls, name)
    if d is not _NO_DEFAULT:
        return d
    raise KeyError(name)
N.resolve_runtime_value = bad_resolve
def check2(x: int, a_cfg: int, a_ctx: int, f_ctx: int, add_in_cfg: bool, f_in_ctx: bool, a_in_ctx: bool, pk: bool) -> bool:
    """
    post: _
    """
    return body(x, a_cfg, a_ctx, f_ctx, add_in_cfg, f_in_ctx, a_in_ctx, pk)
