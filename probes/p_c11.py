import ast
from typing import List
from semantiva.utils.safe_eval import _SafeVisitor, ExpressionError

class Hole(ast.expr):
    """Opaque child: stands for an arbitrary subtree whose acceptance is the induction hypothesis."""
    _fields = ()
    def __init__(self, tag): self.tag = tag

def run_visitor(node, names):
    seen = []
    v = _SafeVisitor(set(names))
    v.visit_Hole = lambda h: seen.append(h.tag)      # instance attribute: real dispatch finds it
    try:
        v.visit(node)
    except ExpressionError:
        return None
    return seen

def lemma_call(fname: str, nargs: int, nkw: int) -> bool:
    """
    L(Call): if visit(Call) returns normally then func is a Name on the documented list and EVERY child
    position (args[*], keywords[*].value) was visited.
    pre: 0 <= nargs <= 2 and 0 <= nkw <= 2 and len(fname) <= 8
    post: _
    """
    args = [Hole(("args", i)) for i in range(nargs)]
    kws = [ast.keyword(arg="k%d" % i, value=Hole(("kw", i))) for i in range(nkw)]
    node = ast.Call(func=ast.Name(id=fname, ctx=ast.Load()), args=args, keywords=kws)
    seen = run_visitor(node, ["x"])
    if seen is None:
        return True
    want = [("args", i) for i in range(nargs)] + [("kw", i) for i in range(nkw)]
    return fname in ("abs", "min", "max", "round", "float", "int", "str", "bool") and sorted(seen) == sorted(want)

def lemma_name(ident: str, allowed: str) -> bool:
    """
    pre: len(ident) <= 4 and len(allowed) <= 4
    post: _
    """
    seen = run_visitor(ast.Name(id=ident, ctx=Hole("ctx")), [allowed])
    return seen is None or ident == allowed
