"""Injective hash / canonical-JSON model: hashes become opaque tokens naming a structure kept in a side table."""
import re
_TABLE = []
_TOK = re.compile(r"⟦(\d+)⟧")
def _tok(struct):
    _TABLE.append(struct)
    return "⟦%d⟧" % (len(_TABLE) - 1)
def freeze(o, sort_keys=True):
    if isinstance(o, dict):
        items = [(k, freeze(v, sort_keys)) for k, v in o.items()]
        return ("D", tuple(sorted(items, key=lambda kv: kv[0]) if sort_keys else items))
    if isinstance(o, (list, tuple)):
        return ("L", tuple(freeze(v, sort_keys) for v in o))
    return o
class FakeJson:
    @staticmethod
    def dumps(obj, sort_keys=False, **kw):
        return _tok(("json", freeze(obj, sort_keys)))
    loads = None
class _H:
    def __init__(self, data=b""): self.parts = [data] if data else []
    def update(self, d): self.parts.append(d)
    def hexdigest(self): return _tok(("sha256", tuple(self.parts)))
class FakeHashlib:
    sha256 = _H
class FakeUUID:
    UUID = __import__("uuid").UUID
    @staticmethod
    def uuid5(ns, name): return _tok(("uuid5", name))
    @staticmethod
    def uuid4(): return __import__("uuid").uuid4()
def expand(x):
    """Replace tokens by their structures, recursively -> nested tuples with symbolic leaves."""
    if isinstance(x, bytes):
        x = x.decode("utf-8")
    if isinstance(x, str):
        m = _TOK.search(x)
        if not m:
            return x
        parts = []; pos = 0
        for m in _TOK.finditer(x):
            if m.start() > pos: parts.append(x[pos:m.start()])
            parts.append(expand(_TABLE[int(m.group(1))])); pos = m.end()
        if pos < len(x): parts.append(x[pos:])
        return ("S", tuple(parts))
    if isinstance(x, tuple):
        return tuple(expand(v) for v in x)
    return x
