import ast, itertools, time, z3
from semantiva.metadata.semantic_id import normalize_expression_sig_v1
from semantiva.utils.safe_eval import ExpressionEvaluator

def pyfloordiv(a, b):  # Python floor division on ints, b != 0
    q = a / b  # z3 Int div: rounds toward -inf for b>0, toward +inf for b<0 (Euclidean: a = b*q + r, 0<=r<|b|)
    return z3.If(b > 0, q, z3.If(a % b == 0, q, q - 1)) if False else z3.If(b > 0, a / b, -((-a) / (-b)) if False else z3.If((a % (-b)) == 0, -(a / (-b)), -(a / (-b)) - 1))

def enc(node, env, side):
    """Python int semantics -> z3 Int; side collects definedness constraints (e.g. divisor != 0)."""
    if isinstance(node, ast.Expression): return enc(node.body, env, side)
    if isinstance(node, ast.Constant): return z3.IntVal(node.value)
    if isinstance(node, ast.Name): return env[node.id]
    if isinstance(node, ast.UnaryOp):
        v = enc(node.operand, env, side)
        return -v if isinstance(node.op, ast.USub) else v
    if isinstance(node, ast.BinOp):
        l, r = enc(node.left, env, side), enc(node.right, env, side)
        if isinstance(node.op, ast.Add): return l + r
        if isinstance(node.op, ast.Sub): return l - r
        if isinstance(node.op, ast.Mult): return l * r
        if isinstance(node.op, ast.FloorDiv):
            side.append(r != 0)
            # floor(l/r): z3 div is Euclidean; convert
            q = l / r; m = l % r
            return z3.If(z3.And(r < 0, m != 0), q + 1 - 1 - 0, q) if False else z3.If(r > 0, q, z3.If(m == 0, q, q - 1))
        if isinstance(node.op, ast.Mod):
            side.append(r != 0)
            m = l % r  # Euclidean: 0 <= m < |r|
            return z3.If(r > 0, m, z3.If(m == 0, m, m + r))
    if isinstance(node, ast.Call):
        args = [enc(a, env, side) for a in node.args]
        if node.func.id == "abs": return z3.If(args[0] >= 0, args[0], -args[0])
        if node.func.id == "min": return z3.If(args[0] <= args[1], args[0], args[1])
        if node.func.id == "max": return z3.If(args[0] >= args[1], args[0], args[1])
    raise NotImplementedError(ast.dump(node))

def equivalent(e1, e2, names=("a", "b")):
    env = {n: z3.Int(n) for n in names}; side = []
    t1, t2 = enc(ast.parse(e1, mode="eval"), env, side), enc(ast.parse(e2, mode="eval"), env, side)
    s = z3.Solver(); s.set("timeout", 5000); s.add(*side); s.add(t1 != t2)
    r = s.check()
    return str(r), ({n: s.model().eval(v, True).as_long() for n, v in env.items()} if r == z3.sat else None)

# self-validation of the encoding against real eval on a grid
ev = ExpressionEvaluator()
for e in ["a//b", "a%b", "(a-b)//3", "-a%b", "min(a,b)-abs(a)"]:
    f = ev.compile(e, {"a", "b"})
    for a, b in itertools.product(range(-4, 5), repeat=2):
        env = {"a": z3.IntVal(a), "b": z3.IntVal(b)}; side = []
        t = enc(ast.parse(e, mode="eval"), env, side)
        if b == 0 and ("//b" in e or "%b" in e): continue
        got = z3.simplify(t).as_long()
        assert got == f(a=a, b=b), (e, a, b, got, f(a=a, b=b))
print("encoding self-check ok")
t = time.time()
for e1, e2 in [("a+b*2", "2*b+a"), ("(a+b)+a*b", "b*a+(b+a)"), ("a-b", "b-a"), ("a//b", "b//a"), ("a*(b+1)", "(1+b)*a"), ("a%3", "a%(1+2)")]:
    s1, s2 = normalize_expression_sig_v1(e1), normalize_expression_sig_v1(e2)
    print(e1, "|", e2, "| same-sig:", s1 == s2, "| z3:", equivalent(e1, e2))
print("%.2fs" % (time.time() - t))
