from typing import List
import itertools as _it
import semantiva.execution.run_space as rs
from semantiva.configurations.schema import RunSpaceV1Config, RunBlock
from semantiva.exceptions.pipeline_exceptions import RunSpaceMaxRunsExceededError, PipelineConfigurationError

class _CountingItertools:
    drawn = 0
    @classmethod
    def product(cls, *iters):
        for combo in _it.product(*iters):
            cls.drawn += 1
            yield combo
rs.itertools = _CountingItertools

def ref(blocks, combine):
    # blocks: list of (mode, {key: list})
    per = []
    for mode, ctx in blocks:
        keys = sorted(ctx)
        if not keys: per.append([] if mode == "by_position" else [{}]); continue
        if mode == "by_position":
            lens = {len(ctx[k]) for k in keys}
            if len(lens) > 1: return "cfg"
            per.append([{k: ctx[k][i] for k in keys} for i in range(len(ctx[keys[0]]))])
        else:
            runs = [{}]
            for k in keys:
                runs = [dict(r, **{k: v}) for r in runs for v in ctx[k]]
            per.append(runs)
    if combine == "by_position":
        if len({len(p) for p in per}) != 1: return "cfg"
        return [dict(itertools_merge(ps)) for ps in zip(*per)]
    out = [{}]
    for p in per:
        out = [dict(a, **b) for a in out for b in p]
    return out
def itertools_merge(ps):
    d = {}
    for p in ps: d.update(p)
    return d

def body(a, b, c, m1, m2, comb, max_runs):
    mode = lambda f: "by_position" if f else "combinatorial"
    blocks = [(mode(m1), {"a": a, "b": b}), (mode(m2), {"c": c})]
    spec = RunSpaceV1Config(combine=mode(comb), max_runs=max_runs,
                            blocks=[RunBlock(mode=m, context=ctx) for m, ctx in blocks])
    exp = ref(blocks, mode(comb))
    _CountingItertools.drawn = 0
    try:
        runs, meta = rs.expand_run_space(spec)
    except PipelineConfigurationError:
        return exp == "cfg"
    except RunSpaceMaxRunsExceededError as e:
        if exp == "cfg" or not (len(exp) > max_runs and e.actual_runs == len(exp)):
            return False
        return _CountingItertools.drawn <= max_runs + 1      # "without materialising"
    return exp != "cfg" and len(exp) <= max_runs and runs == exp and meta["expanded_runs"] == len(exp)

def check(a: List[int], b: List[int], c: List[int], m1: bool, m2: bool, comb: bool, max_runs: int) -> bool:
    """
    pre: len(a) <= 3 and len(b) <= 3 and len(c) <= 3 and 0 <= max_runs <= 30
    post: _
    """
    return body(a, b, c, m1, m2, comb, max_runs)
