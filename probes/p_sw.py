from typing import List
from hstubs import *
from semantiva.data_processors.parametric_sweep_factory import ParametricSweepFactory, SequenceSpec, FromContext
from semantiva.pipeline import Pipeline, Payload
from semantiva.context_processors import ContextType

def body(ts, ss, x, bias_cfg, has_bias, bymode):
    cls = ParametricSweepFactory.create(element=OpAdd, element_kind="DataOperation", collection_output=IntColl,
        vars={"t": SequenceSpec(ts), "s": FromContext("svals")}, parametric_expressions={"addend": "2*t + s"},
        mode="by_position" if bymode else "combinatorial", broadcast=True)
    node = {"processor": cls, "parameters": ({"bias": bias_cfg} if has_bias else {})}
    res = Pipeline([node], logger=LOG).process(Payload(IntData(x), ContextType({"svals": ss})))
    got = [d.data for d in res.data]
    bias = bias_cfg if has_bias else 1
    if bymode:
        n = max(len(ts), len(ss)); exp = [x + 2*ts[i % len(ts)] + ss[i % len(ss)] + bias for i in range(n)]
    else:
        exp = [x + 2*t + s + bias for s in ss for t in ts]   # sorted names: s, t -> t varies fastest
    ctx = res.context.to_dict()
    return got == exp and ctx.get("t_values") == ts and ctx.get("s_values") == ss

def check(ts: List[int], ss: List[int], x: int, bias_cfg: int, has_bias: bool, bymode: bool) -> bool:
    """
    pre: 1 <= len(ts) <= 3 and 1 <= len(ss) <= 2
    post: _
    """
    return body(ts, ss, x, bias_cfg, has_bias, bymode)
