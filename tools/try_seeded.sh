#!/bin/sh
# tools/try_seeded.sh <seeded-dir-name> <property> [tier]   -- apply a seeded change to /repo, run the check, undo.
set -u
S=/verif/seeded/$1; P=$2; T=${3:-quick}
cd /repo || exit 9
if [ -n "$(git status --porcelain --untracked-files=no)" ]; then echo "repo not clean"; exit 9; fi
git apply "$S/patch.diff" || { echo "patch does not apply"; exit 9; }
cd /verif && ./check "$P" --tier "$T" > /tmp/try_$1_$P.log 2>&1; rc=$?
git -C /repo checkout -- .
echo "seeded=$1 check=$P tier=$T exit=$rc"; grep -c "^VIOLATION" /tmp/try_$1_$P.log; grep "^VIOLATION\|^SUMMARY\|^HARNESS" /tmp/try_$1_$P.log | cut -c1-220 | head -8
