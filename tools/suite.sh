#!/bin/sh
# runs the repository's pinned test suite (guard off) and prints the count line; expected: 503 passed, 1 failed (test_export_ontology, rdflib missing)
cd /repo && env -u SEMANTIVA_VERIF /venv/bin/python -m pytest -q -p no:cacheprovider --timeout=900 --continue-on-collection-errors 2>&1 | tail -3; rm -f /repo/output.txt /repo/output_float.txt
