#!/bin/sh
# tools/run_all.sh [quick|thorough] [ids...] : runs the registered checks sequentially against /repo, prints one line each
T=${1:-quick}; shift 2>/dev/null
cd "$(dirname "$0")/.." || exit 9
IDS=${@:-$(python3 -c "import json;print(' '.join(c['property_id'] for c in json.load(open('MANIFEST.json'))['checks']))")}
for p in $IDS; do
  s=$(date +%s); ./check $p --tier $T > /tmp/runall_$p.log 2>&1; rc=$?; e=$(date +%s)
  echo "$p exit=$rc $((e-s))s $(grep -c '^KNOWN-FINDING' /tmp/runall_$p.log) known | $(grep '^SUMMARY' /tmp/runall_$p.log | cut -c1-170)"
done
