#!/usr/bin/env python3
"""tools/matrix.py <try_mutant_wt output files...> : folds 'MUT <dir> check=<id> tier=<t> exit=<rc> ... viol=<n>' lines into
seeded/<id>/meta.json (detected_by / runs) and prints the markdown table used in DESIGN.md 9.6."""
import json, os, re, sys
ROOT = os.path.dirname(os.path.dirname(os.path.abspath(__file__)))
runs = {}
for f in sys.argv[1:]:
    for line in open(f):
        m = re.match(r"MUT (\S+) check=(\S+) tier=(\S+) exit=(\d+) (\d+)s viol=(\d+)", line)
        if not m:
            continue
        d, chk, tier, rc, secs, viol = m.groups()
        runs.setdefault(os.path.basename(d), {})[chk] = {"tier": tier, "exit": int(rc), "seconds": int(secs), "violations": int(viol)}
rows = []
for d in sorted(x for x in os.listdir(os.path.join(ROOT, "seeded")) if not x.startswith("_")):
    mp = os.path.join(ROOT, "seeded", d, "meta.json")
    meta = json.load(open(mp))
    r = dict(meta.get("runs") or {})
    r.update(runs.get(d, {}))
    meta["runs"] = r
    det = sorted(c for c, v in r.items() if v["exit"] == 1 and v["violations"] > 0)
    meta["detected_by"] = det or None
    json.dump(meta, open(mp, "w"), indent=1)
    own = d.split("-")[0]
    cell = lambda c: ("**%s**" % c if r[c]["exit"] == 1 else ("%s: exit 2" % c if r[c]["exit"] == 2 else "%s: -" % c))
    rows.append("| %s | %s | %s |" % (d, ", ".join(cell(c) for c in sorted(r, key=lambda c: (c != own, c))) or "not run", (meta.get("summary") or "")[:150]))
print("| seeded change | checks run (bold = VIOLATION, exit 1) | what it is |\n|---|---|---|")
print("\n".join(rows))
n = len(rows); caught = sum(1 for d in os.listdir(os.path.join(ROOT, "seeded")) if not d.startswith("_") and json.load(open(os.path.join(ROOT, "seeded", d, "meta.json"))).get("detected_by"))
print("\n%d of %d seeded changes are reported as VIOLATION by at least one check (quick tier)." % (caught, n))
