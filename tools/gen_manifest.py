#!/usr/bin/env python3
"""Regenerates /verif/MANIFEST.json from the table below (kept next to the code so it cannot drift)."""
import json, os
ROOT = os.path.dirname(os.path.dirname(os.path.abspath(__file__)))
CLAIMED = {
 # id: (level category, technique, level text, level note, design_ref)
 "C01": ("model_checking", "CrossHair/z3 symbolic execution of the real Pipeline/orchestrator/node stack per shape template, differential against a reference model; unit obligations on resolve_runtime_value, the validating observer and the type gate",
         "Bounded symbolic differential check: for each shape template (all length-1, all length-2 over 19 node forms, 24 curated interactions; thorough: all length-3 + seeded longer ones) the solver explores every path of the real run with payload, configured values, context values symbolic and every placement/presence a symbolic flag, and shows data, context and the component log equal the documented semantics, or the prescribed exception at the prescribed node with nothing after it.",
         "Trusted: CrossHair 0.0.110 + z3 models; the reference model vt/refmodel.py (my reading of the docs); harness component library instead of the float examples; stubs for clock, canonical JSON, logging, env pins (listed in evidence). Lengths beyond the templates are outside.", "4 C01"),
 "C02": ("model_checking", "CrossHair/z3 symbolic execution of real inspection+validation followed by the real run on the same symbolic configuration (soundness implication + per-node truthfulness), unit obligations tying inspect_origin/_is_compatible/unknown-parameter classification to their run-time counterparts",
         "Bounded symbolic implication check per shape template: whenever build_pipeline_inspection+validate_pipeline accept and the (symbolic) initial context contains the reported required keys, the real run has no path that fails on flow; with exactly the required keys, reported created/suppressed keys and parameter origins are compared with the recorded per-node context and the values the components received, for all values.",
         "Trusted: as C01; precondition that the initial payload type fits the first data node; flow failure classified by exception class+message. One open known finding (origin 'default' vs initial context) is listed in known_findings.json.", "4 C02"),
 "C03": ("model_checking", "CrossHair/z3 symbolic execution of the real sweep machinery: _iterate_sweep/_materialize_sequences/_convert_var_specs as units, and generated sweep classes run through the real Pipeline with symbolic sequences, modes and parameter placements",
         "Bounded symbolic check: the whole step list of _iterate_sweep is compared with the documented order for 1..3 variables with symbolic lists (length 1..3, thorough 4), both modes, broadcast on/off; sweep classes produced by derive.parameter_sweep for source/operation/probe are executed through the real Pipeline over 5 expressions with symbolic sequences (config and from_context), symbolic mode/broadcast and symbolic placement of the non-swept parameter; elements, call parameters (computed > node > default), collection type, probe pass-through and every published <var>_values are asserted for all values.",
         "Trusted: CrossHair/z3 models; stubs as C01 (sequence-domain digest stubbed); integer payloads; log ranges and non-integer linear grids are outside (numpy transcendental functions).", "4 C03"),
 "C04": ("model_checking", "CrossHair/z3 symbolic execution of the real identity code paths under an injective-hash model (hashes/UUIDs/canonical JSON as content-addressed tokens): key-order permutations chosen by symbolic indices, inspect-vs-runtime and run-history comparisons with symbolic values; z3-proved-equivalent expression spellings for +/* reordering",
         "Bounded symbolic relational check: every identity the framework derives (node UUIDs, pipeline id, semantic id, config id, node semantic ids, sanitised node metadata, sorted required keys, run-space spec id) is shown equal, as a hash pre-image with symbolic leaves, under every insertion order of 10 mappings of the configuration; equal between build_inspection_payload and the pipeline_start record of the real orchestrator; and unchanged across construction, a first and a second run of one Pipeline object and runs of other pipelines. 296 expression pairs one AC move apart (z3: equivalent) must produce identical real identities.",
         "Trusted: collision-freedom of SHA-256/UUIDv5 and injectivity of canonical JSON (the model's assumptions), CrossHair/z3. Outside: YAML text-level rewrites (PyYAML), fresh process / PYTHONHASHSEED / cwd.", "4 C04"),
 "C05": ("model_checking", "CrossHair/z3 symbolic execution of the real identity code under the injective-hash model: one obligation per (mutation operator, identity aspect) with symbolic values v1 != v2, plus symbolic NAME strings for sweep variables/parameters",
         "Bounded symbolic relational check: for 16 single-point mutation operators (processor, node count/order, parameter value at five nesting positions, every part of a sweep definition incl. a symbolic position in a 7-element domain) the solver shows the pre-images of semantic id, config id and the affected node's UUID/semantic id differ for all values; identical nodes get distinct UUIDs; for every variable/parameter NAME of length <= 8 a domain or expression change is visible in the node semantic id.",
         "Trusted: as C04. Open known finding: the pipeline semantic id ignores the whole sweep definition (glob C05.P1:semantic_id-unchanged:sweep:*).", "4 C05"),
 "C06": ("model_checking", "CrossHair/z3 exploration of the scenario space (fault position x fault kind x special-value class x placement) over the real Pipeline + real JsonlTraceDriver writing real files; each leaf validated against the repository's JSON schemas",
         "Bounded solver-enumerated fault check: per (length 1..3 [4], detail level, file/directory mode, source-first) the fault position, fault kind (7 kinds incl. construction-time failures and a BaseException abort), a special float (inf/-inf/nan/finite/none) reaching a traced parameter from context or config are symbolic; every leaf runs the real stack and asserts record bracket, one SER per started node in canonical order, shared ids, upstream = canonical edges, statuses, original exception object, file closed, and schema validity of every line. compute_upstream_map is checked symbolically against the inverse adjacency.",
         "Values are concrete in P1 (JSON serialisation is the subject) - the solver decides the scenario selectors only, and says so. Stubs: constant clock/datetime/env pins. Open known finding: BaseException aborts leave no SER/pipeline_end.", "4 C06"),
 "C08": ("model_checking", "CrossHair/z3 symbolic execution of the real expand_run_space/_expand_entries against a reference, with list lengths, modes at three levels, select/rename choices and max_runs symbolic; counting itertools.product for the 'without materialising' clause",
         "Bounded symbolic differential check of run-space expansion: run list and order, key union, meta counts, every documented rejection (unequal lengths, duplicates within/across blocks/after rename, missing selected column) and the max-runs error iff size > max_runs with the true size, for all list contents and lengths within the bound; the work done before a max-runs rejection is bounded by a linear budget through a counting product.",
         "Trusted: CrossHair/z3 models; external sources enter as symbolic columns through a stubbed _load_source_file (file parsers outside). Open known finding: in-block product materialised before the cap.", "4 C08"),
 "C09": ("model_checking", "CrossHair/z3 symbolic execution of the real cli._run launch loop (in-process, in-memory trace driver) and of the run-space identity/launch code under the injective-hash model",
         "Bounded symbolic check: inspect and trace spec ids are compared as pre-images for blocks with symbolic values and optional fields present/absent; spec id invariance under key order and sensitivity to 6 plan mutations; idempotency-key launch ids reproducible, basis-dependent and attempt-preserving; inputs id vs symbolic file digests; and per (run count 1..3, launch-id option, attempt 1..3) the real CLI launch is run with symbolic context values and a symbolic failing run: bracket records, counts, per-run foreign keys/index/context, plan order, nothing after a failure, and run i's component log and SER content equal a standalone run on run i's context.",
         "Trusted: injective-hash assumptions; CLI stubs (_load_yaml, trace driver builder, --context value table, plan printing, repr of logged values); launches > 3 runs and JSONL file/directory modes outside.", "4 C09"),
 "C11": ("model_checking", "CrossHair/z3 symbolic execution of the real _SafeVisitor: one local lemma per AST node class (structural induction) + symbolic compile() sequences",
         "Bounded symbolic check: for every node class of the interpreter's expression grammar the solver explores all paths of the real visitor over symbolic child counts (0..2), optional-field flags and identifier strings (len<=8) and shows that a normal return implies whitelist membership, declared names, listed call targets and that every child position was visited; by induction over the tree this covers expressions of any depth. compile() is checked as a unit over a 16x6 table with symbolic indices, symbolic variable values and 2-call histories.",
         "Trusted: CPython ast/compile/eval, CrossHair 0.0.110 + z3 5.1 models of int/str/list; the whitelist constant frozen in the harness; bounds: list fields <=2 children, identifiers <=8 chars, expression texts limited to the table.", "4 C11"),
 "C12": ("translation_validation", "z3 equivalence/inequivalence queries on an encoding of Python integer semantics generated from each expression's AST; the real normaliser is executed on exhaustive universes",
         "The normaliser's equivalence classes are validated semantically: for every pair of expressions that the real normalize_expression_sig_v1 maps to one signature z3 proves equality for all integer assignments (unsat of the negation), every single AC move is checked to keep the signature, and every single-point mutation that z3 can separate must change it. Exhaustive up to 5 AST nodes (6 in thorough over a reduced leaf set) plus all pairs/triples of nested chains, plus a seeded draw of larger expressions.",
         "Trusted: z3 5.1 integer theory; the Python-semantics encoding vt/z3enc/expr.py (validated each run on a grid against the real ExpressionEvaluator); divisors assumed non-zero; floats and symbolic exponents outside.", "4 C12"),
}
NOT_APPLICABLE = {
 "C18": "observable is the population of live objects / registry length after N whole-program runs: no input for a solver to range over; a 'symbolic' check would be a concrete measurement under another name (DESIGN 5)",
}
def main():
    checks = []
    for pid, (cat, tech, text, note, ref) in sorted(CLAIMED.items()):
        checks.append({
            "property_id": pid,
            "quick_cmd": "./check %s --tier quick" % pid,
            "thorough_cmd": "./check %s --tier thorough" % pid,
            "evidence_file": "/verif/evidence/%s.json" % pid,
            "replay_cmd_template": "./check %s --replay {path}" % pid,
            "engine": "vt",
            "level_claimed": {"category": cat, "text": text, "design_ref": ref},
            "level_note": note,
            "technique": tech,
        })
    props = [json.loads(l)["id"] for l in open(os.path.join(ROOT, "properties.jsonl"))]
    na = [{"property_id": p, "reason": NOT_APPLICABLE.get(p, "check not built yet in this session (planned: see DESIGN section 4); not claimed until it runs green on the unchanged tree")} for p in props if p not in CLAIMED]
    m = {
        "version": 1,
        "setup_cmd": "sh ./setup.sh",
        "hooks": {"guard": "SEMANTIVA_VERIF", "enable": "no source hooks exist: observation is through public extension points and module-attribute substitution from /verif; the guard guards nothing", "baseline_off_cmd": "cd /repo && /venv/bin/python -m pytest -ra -q -p no:cacheprovider --timeout=900 --continue-on-collection-errors", "source_commits": [], "add_only": True},
        "engines": [{"name": "vt", "path": "/verif/vt", "serves_properties": sorted(CLAIMED), "kind_free_text": "Engine A: CrossHair 0.0.110 + z3 5.1 exhaustive symbolic path exploration of the real semantiva code (own driver vt/engine.py on top of CrossHair's StateSpace); Engine B: z3 encodings generated from the source on every run"}],
        "checks": checks,
        "not_applicable": na,
        "notes": "Solver-based checking only. Every verdict is bounded; bounds, stubs and what lies outside are in each evidence file and in DESIGN.md. Exit 0 = nothing refuted (inconclusive obligations are listed, never counted as discharged); exit 1 = replayed violation; exit 2 = harness error.",
    }
    json.dump(m, open(os.path.join(ROOT, "MANIFEST.json"), "w"), indent=1)
    print("MANIFEST: %d checks, %d not_applicable" % (len(checks), len(na)))
if __name__ == "__main__":
    main()
