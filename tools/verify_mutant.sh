#!/bin/sh
# tools/verify_mutant.sh <dir with patch.diff + demo*.py> : confirm a candidate change in a scratch worktree of /repo
#   (a) applies to HEAD, (b) repo test suite still passes with it (only the known rdflib failure),
#   (c) demo exits non-zero with it, (d) demo exits 0 without it.  The worktree is removed afterwards.
set -u
D=$(cd "$1" && pwd); N=$(echo "$D" | tr '/' '_')
W=/tmp/wtv/$N
DEMO=$(ls "$D"/demo*.py | head -1)
mkdir -p /tmp/wtv; git -C /repo worktree remove --force "$W" 2>/dev/null
git -C /repo worktree add -q --detach "$W" HEAD || exit 9
cd "$W"
if ! git apply "$D/patch.diff"; then echo "RESULT $D apply=FAIL"; git -C /repo worktree remove --force "$W"; exit 1; fi
PYTHONPATH=$W /venv/bin/python -m pytest -q -p no:cacheprovider --timeout=900 --continue-on-collection-errors -ra > /tmp/wtv/$N.suite.log 2>&1
S=$(tail -1 /tmp/wtv/$N.suite.log)
FAILED=$(grep -E "^(FAILED|ERROR)" /tmp/wtv/$N.suite.log | grep -v test_export_ontology | head -3)
(cd /tmp && PYTHONPATH=$W timeout 600 /venv/bin/python "$DEMO" >/tmp/wtv/$N.with.log 2>&1); RW=$?
git checkout -q -- . ; git clean -fdq
(cd /tmp && PYTHONPATH=$W timeout 600 /venv/bin/python "$DEMO" >/tmp/wtv/$N.without.log 2>&1); RO=$?
cd /; git -C /repo worktree remove --force "$W"
echo "RESULT $D apply=ok suite='$S' other_failures='$FAILED' demo_with=$RW demo_without=$RO"
