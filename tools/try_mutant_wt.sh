#!/bin/sh
# tools/try_mutant_wt.sh <dir-with-patch.diff> <tier> <prop> [prop...]
# Development loop: apply the change in a scratch worktree of /repo (never /repo itself), point the SAME
# checks at it through VERIF_REPO, keep evidence/replays apart through VERIF_OUT, remove the worktree.
set -u
HERE=$(cd "$(dirname "$0")/.." && pwd)
D=$(cd "$1" && pwd); T=$2; shift 2
N=$(echo "$D" | tr '/' '_')
W=/tmp/wtm/$N; O=/tmp/wtm/$N.out
mkdir -p /tmp/wtm "$O"; git -C /repo worktree remove --force "$W" 2>/dev/null
git -C /repo worktree add -q --detach "$W" HEAD || exit 9
git -C "$W" apply "$D/patch.diff" || { echo "MUT $D apply=FAIL"; git -C /repo worktree remove --force "$W"; exit 9; }
for P in "$@"; do
  s=$(date +%s)
  VERIF_REPO=$W VERIF_OUT=$O "$HERE/check" "$P" --tier "$T" ${JOBS:+--jobs $JOBS} ${ONLY:+--only "$ONLY"} > "$O/$P.log" 2>&1; rc=$?
  e=$(date +%s)
  echo "MUT $D check=$P tier=$T exit=$rc $((e-s))s viol=$(grep -c '^VIOLATION' "$O/$P.log") | $(grep '^SUMMARY' "$O/$P.log" | cut -c1-150)"
  grep '^HARNESS-ERROR' "$O/$P.log" | cut -c1-300 | head -3
done
git -C /repo worktree remove --force "$W"
